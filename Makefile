# Build of the verification machinery. Everything is rebuilt from the working
# tree of $(REPO) (default /repo); make's dependency tracking on the repository
# sources guarantees that an edited tree is recompiled before any check runs.
#
# Variants (DESIGN.md 2.2):
#   asan  : gcc  -O1 -g ASan+UBSan, asserts on        (rapidcheck harnesses)
#   fuzz  : clang -O1 -g fuzzer-no-link,ASan,UBSan    (libFuzzer targets)
#   tsan  : gcc  -O1 -g TSan                          (C20)
#   plain : gcc  -O1 -g, also as shared object        (C20 writable-segment scan)

REPO ?= /repo
B    ?= build
SRCS := $(wildcard $(REPO)/src/*.c)
HDRS := $(wildcard $(REPO)/src/*.h) $(wildcard $(REPO)/include/uriparser/*.h) $(REPO)/src/UriConfig.h.in
NAMES := $(notdir $(SRCS:.c=))

REDEF := --redefine-sym malloc=vf_malloc --redefine-sym calloc=vf_calloc \
         --redefine-sym realloc=vf_realloc --redefine-sym reallocarray=vf_reallocarray \
         --redefine-sym free=vf_free

INC   := -I$(REPO)/include -I$(B)/gen -I$(REPO)/src
LIBDEF := -DURI_LIBRARY_BUILD -DURI_STATIC_BUILD -fno-builtin
CSTD  := -std=gnu99

ASAN_C   := gcc $(CSTD) -O1 -g -fno-omit-frame-pointer -fsanitize=address,undefined -fno-sanitize-recover=undefined
ASAN_CXX := g++ -std=gnu++17 -O1 -g -fno-omit-frame-pointer -fsanitize=address,undefined -fno-sanitize-recover=undefined
FUZZ_C   := clang $(CSTD) -O1 -g -fno-omit-frame-pointer -fsanitize=fuzzer-no-link,address,undefined -fno-sanitize-recover=undefined
FUZZ_CXX := clang++ -std=gnu++17 -O1 -g -fno-omit-frame-pointer -fsanitize=fuzzer,address,undefined -fno-sanitize-recover=undefined
TSAN_C   := gcc $(CSTD) -O1 -g -fno-omit-frame-pointer -fsanitize=thread
TSAN_CXX := g++ -std=gnu++17 -O1 -g -fno-omit-frame-pointer -fsanitize=thread
PLAIN_C  := gcc $(CSTD) -O1 -g -fPIC
PLAIN_CXX:= g++ -std=gnu++17 -O1 -g

COMMON_H := $(wildcard src/common/*.hpp) $(wildcard src/common/*.inc)

HARNESSES := $(patsubst src/%.cpp,%,$(wildcard src/c[0-9][0-9]*.cpp))
FUZZ_IDS  := c01 c02 c03 c04 c05 c06 c07 c08 c09 c10 c11 c12 c13 c14 c15 c16 c17 c18 c19
FUZZERS   := $(addprefix fz_,$(FUZZ_IDS))

.PHONY: all clean libs harnesses fuzzers
all: libs harnesses $(B)/bin/c20_tsan fuzzers $(B)/bin/hashunion $(B)/fuzzseeds/.stamp
libs: $(B)/asan/liburi.a $(B)/fuzz/liburi.a $(B)/tsan/liburi.a $(B)/plain/liburi_plain.so
harnesses: $(addprefix $(B)/bin/,$(HARNESSES))
fuzzers: $(addprefix $(B)/bin/,$(FUZZERS))

# ---- generated config header (from the repository's template) ----------------
$(B)/gen/UriConfig.h: $(REPO)/src/UriConfig.h.in
	@mkdir -p $(B)/gen
	sed -e 's/#cmakedefine \(HAVE_[A-Z_]*\)/#define \1/' -e 's/@PROJECT_VERSION@/verif/' $< > $@

# ---- library objects per variant --------------------------------------------
define LIBRULES
$(B)/$(1)/obj/%.o: $(REPO)/src/%.c $(HDRS) $(B)/gen/UriConfig.h
	@mkdir -p $(B)/$(1)/obj
	$(2) $(INC) $(LIBDEF) -c $$< -o $$@.tmp.o
	objcopy $(REDEF) $$@.tmp.o $$@
	@rm -f $$@.tmp.o
$(B)/$(1)/liburi.a: $(addprefix $(B)/$(1)/obj/,$(addsuffix .o,$(NAMES)))
	@rm -f $$@
	ar rcs $$@ $$^
endef
$(eval $(call LIBRULES,asan,$(ASAN_C)))
$(eval $(call LIBRULES,fuzz,$(FUZZ_C)))
$(eval $(call LIBRULES,tsan,$(TSAN_C)))
$(eval $(call LIBRULES,plain,$(PLAIN_C)))

# plain shared object: library allocator references are NOT redirected here, it is
# only used to inspect writable segments (C20)
$(B)/plain/liburi_plain.so: $(SRCS) $(HDRS) $(B)/gen/UriConfig.h
	@mkdir -p $(B)/plain
	gcc $(CSTD) -O1 -g -fPIC -shared $(INC) $(LIBDEF) -Wl,-z,relro,-z,now $(SRCS) -o $@

# ---- engine (the only TU that includes rapidcheck) --------------------------
$(B)/asan/engine.o: src/common/engine.cpp $(COMMON_H)
	@mkdir -p $(B)/asan
	$(ASAN_CXX) -Isrc/common -c $< -o $@
$(B)/tsan/engine.o: src/common/engine.cpp $(COMMON_H)
	@mkdir -p $(B)/tsan
	$(TSAN_CXX) -Isrc/common -c $< -o $@
$(B)/fuzz/fuzzengine.o: src/common/fuzzengine.cpp $(COMMON_H)
	@mkdir -p $(B)/fuzz
	clang++ -std=gnu++17 -O1 -g -fno-omit-frame-pointer -fsanitize=fuzzer-no-link,address,undefined -fno-sanitize-recover=undefined -Isrc/common -c $< -o $@

# ---- harness binaries -------------------------------------------------------
$(B)/asan/%.o: src/%.cpp $(COMMON_H) $(HDRS) $(B)/gen/UriConfig.h
	@mkdir -p $(B)/asan
	$(ASAN_CXX) $(INC) -Isrc/common -c $< -o $@
$(B)/bin/%: $(B)/asan/%.o $(B)/asan/engine.o $(B)/asan/liburi.a
	@mkdir -p $(B)/bin
	$(ASAN_CXX) $< $(B)/asan/engine.o $(B)/asan/liburi.a -lrapidcheck -lpthread -ldl -o $@

# C20 gets a second, ThreadSanitizer-built binary
$(B)/tsan/%.o: src/%.cpp $(COMMON_H) $(HDRS) $(B)/gen/UriConfig.h
	@mkdir -p $(B)/tsan
	$(TSAN_CXX) $(INC) -Isrc/common -c $< -o $@
$(B)/bin/%_tsan: $(B)/tsan/%.o $(B)/tsan/engine.o $(B)/tsan/liburi.a
	@mkdir -p $(B)/bin
	$(TSAN_CXX) $< $(B)/tsan/engine.o $(B)/tsan/liburi.a -lrapidcheck -lpthread -ldl -o $@

# ---- libFuzzer targets: same harness sources, fuzz engine instead of rapidcheck
$(B)/fuzz/%.o: src/%.cpp $(COMMON_H) $(HDRS) $(B)/gen/UriConfig.h
	@mkdir -p $(B)/fuzz
	clang++ -std=gnu++17 -O1 -g -fno-omit-frame-pointer -fsanitize=fuzzer-no-link,address,undefined -fno-sanitize-recover=undefined $(INC) -Isrc/common -c $< -o $@
$(B)/bin/fz_%: $(B)/fuzz/%.o $(B)/fuzz/fuzzengine.o $(B)/fuzz/liburi.a
	@mkdir -p $(B)/bin
	$(FUZZ_CXX) $< $(B)/fuzz/fuzzengine.o $(B)/fuzz/liburi.a -lpthread -ldl -o $@

$(B)/bin/hashunion: src/common/hashunion.cpp
	@mkdir -p $(B)/bin
	g++ -std=gnu++17 -O2 $< -o $@

# seed corpus for the byte-level fuzz arms: string literals scraped from the repository's tests
$(B)/fuzzseeds/.stamp: tools/scrape_seeds.py $(wildcard $(REPO)/test/*.cpp)
	python3 tools/scrape_seeds.py $(REPO)/test $(B)/fuzzseeds
	@touch $@

clean:
	rm -rf $(B)

.SECONDARY:
