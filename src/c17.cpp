// C17  Query lists round-trip and composed output fits the stated size.
// Oracles: M_compose/M_dissect from the documentation; every capacity from -1 to
// R+2 into a guard-page buffer of exactly that many characters; legality of every
// composed character in a query (class + grammar automaton); malloc variant gives
// the same text; the huge class checks that sums beyond INT_MAX are refused.
#include <climits>
#include <sys/mman.h>
#include <set>
#include "gen.hpp"
#include "observe.hpp"

using namespace vf;

struct Item { std::string key; bool hasValue; std::string value; };

static std::string g_qtext(Tape &t, int maxLen) {
  static const std::vector<std::string> chunks = {"a", "b", "k", "v", "1", "%", "%41", "%4", "+", " ", "\r", "\n", "\r\n", "&", "=", "==", "\x7f", "\x80", "\xff", "#", "?", "/", ";", "%0D%0A", "%26", "%3D", "~", "-"};
  std::string s;
  int n = t.range(0, maxLen);
  for (int i = 0; i < n; i++) s += t.chance(4, 5) ? t.pick(chunks) : std::string(1, (char)(1 + t.below(255)));
  return s;
}
static Fields gen(Tape &t) {
  Fields f;
  int huge = t.chance(1, 40);
  f.seti("huge", huge);
  if (huge) {
    // lengths relative to the per-item limits; all items point into one shared buffer
    int n = t.range(1, 4);
    f.seti("n", n);
    f.seti("nb", t.below(2));
    for (int i = 0; i < n; i++) {
      f.seti("klen." + std::to_string(i), t.below(8));
      f.seti("vlen." + std::to_string(i), t.below(9));
    }
    // half of the huge lists are tuned: the last value's length is solved for so that the worst-case total lands exactly on
    // INT_MAX-2 .. INT_MAX+2 (the sums of the other lengths rarely hit such a boundary by themselves)
    f.seti("tune", t.coin() ? 0 : 1 + (int)t.below(5));
    // what is tuned: 0 the total of the list, 1 the contribution of the last item alone ('&' + key + '=' + value), which
    // for a non-first item can be exactly INT_MAX or INT_MAX + 1 while key and value are each below the per-item limit
    f.seti("tunemode", t.below(2));
    return f;
  }
  int n = t.range(1, 6);
  f.seti("n", n);
  for (int i = 0; i < n; i++) {
    std::string k = t.chance(1, 6) ? "" : g_qtext(t, 6);
    f.set("k." + std::to_string(i), k);
    if (!t.chance(1, 4)) f.set("v." + std::to_string(i), t.chance(1, 5) ? "" : g_qtext(t, 8));
  }
  // one list in 24 has a key or a value of about 1024 / 2048 / 2500 / 4096 characters (buffers and thresholds of that
  // order: stack buffers for short texts, "small" fast paths), plain or with one character that needs escaping
  if (t.chance(1, 24)) {
    static const int lens[] = {1023, 1024, 1025, 2047, 2048, 2049, 2500, 4095, 4096, 4097};
    std::string big((size_t)lens[t.below(10)], 'k');
    if (t.coin()) big[big.size() / 2] = " \n&%="[t.below(5)];
    int at = (int)t.below((uint32_t)n);
    std::string which = (t.coin() && f.has("v." + std::to_string(at)) ? "v." : "k.") + std::to_string(at);
    for (auto &kv : f.kv) if (kv.first == which) kv.second = esc(big);
    f.seti("kilo", 1);
  }
  // UriBool is an int: besides URI_FALSE / URI_TRUE one case in eight passes another non-zero value for a flag
  // (what a C caller writing `flags & MASK` passes). Only the clauses that do not depend on how such a value is
  // read are then asserted: never beyond maxChars, chars-required sufficient, written == length + 1, and the text
  // must be the composition under one of the two readings.
  static const int odd[] = {2, -1, 256};
  f.seti("s2p", t.chance(15, 16) ? (long long)t.below(2) : odd[t.below(3)]);
  f.seti("nb", t.chance(15, 16) ? (long long)t.below(2) : odd[t.below(3)]);
  f.seti("bc", t.below(4));
  f.seti("mm", t.below(2));
  f.seti("icnull", t.below(3) == 0);
  f.seti("plainapi", t.below(4) == 0);
  return f;
}

static bool is_unres(unsigned char c) { return isalnum(c) || c == '-' || c == '.' || c == '_' || c == '~'; }
static std::string m_esc(const std::string &s, bool s2p, bool nb) {
  std::string o;
  static const char H[] = "0123456789ABCDEF";
  for (size_t i = 0; i < s.size(); i++) {
    unsigned char c = (unsigned char)s[i];
    if (c == ' ') o += s2p ? "+" : "%20";
    else if (is_unres(c)) o += (char)c;
    else if (nb && (c == '\r' || c == '\n')) { if (c == '\n' && i > 0 && s[i - 1] == '\r') continue; o += "%0D%0A"; }
    else { o += '%'; o += H[c >> 4]; o += H[c & 15]; }
  }
  return o;
}
static std::string m_compose(const std::vector<Item> &l, bool s2p, bool nb) {
  std::string o;
  for (size_t i = 0; i < l.size(); i++) {
    if (i) o += '&';
    o += m_esc(l[i].key, s2p, nb);
    if (l[i].hasValue) { o += '='; o += m_esc(l[i].value, s2p, nb); }
  }
  return o;
}
static long long worst_case(const std::vector<Item> &l, bool nb) {
  long long w = nb ? 6 : 3, tot = 0;
  for (size_t i = 0; i < l.size(); i++) tot += (i ? 1 : 0) + w * (long long)l[i].key.size() + (l[i].hasValue ? 1 + w * (long long)l[i].value.size() : 0);
  return tot;
}
// what a value looks like after compose (breaks normalised or not) and dissect with break mode bc
static std::string expect_after(const std::string &s, bool nb, int bc) {
  // after composing, every break is encoded; with nb each of CR, LF, CRLF became %0D%0A
  std::string o;
  for (size_t i = 0; i < s.size(); i++) {
    char c = s[i];
    if (c != '\r' && c != '\n') { o += c; continue; }
    bool pairCRLF = c == '\r' && i + 1 < s.size() && s[i + 1] == '\n';
    if (nb) {
      // one break (CR, LF or CRLF) composed as %0D%0A, dissected per mode
      if (pairCRLF) i++;
      o += bc == URI_BR_TO_LF ? "\n" : bc == URI_BR_TO_CR ? "\r" : "\r\n";
    } else {
      // encoded verbatim: %0D, %0A; dissect converts encoded breaks, CRLF counts as one
      if (bc == URI_BR_DONT_TOUCH) { o += c; continue; }
      if (pairCRLF) i++;
      o += bc == URI_BR_TO_LF ? "\n" : bc == URI_BR_TO_CR ? "\r" : "\r\n";
    }
  }
  return o;
}

static GuardBuf &gb() { static GuardBuf g(160); return g; }  // 640 KiB: one item of ~4100 characters, worst case six-fold, four bytes wide, and then some

template <class A> struct ListHolder {
  using Ch = typename A::Ch;
  std::vector<std::basic_string<Ch>> keys, values;
  std::vector<typename A::QL> nodes;
  void build(const std::vector<Item> &l) {
    size_t n = l.size();
    keys.resize(n); values.resize(n); nodes.resize(n);
    for (size_t i = 0; i < n; i++) {
      keys[i] = widen<Ch>(l[i].key);
      values[i] = widen<Ch>(l[i].value);
      nodes[i].key = keys[i].c_str();
      nodes[i].value = l[i].hasValue ? values[i].c_str() : nullptr;
      nodes[i].next = i + 1 < n ? &nodes[i + 1] : nullptr;
    }
  }
};

template <class A> static Verdict check_type(const Fields &f, const std::vector<Item> &l, bool *nontrivial) {
  using Ch = typename A::Ch;
  int s2pRaw = (int)f.geti("s2p"), nbRaw = (int)f.geti("nb");
  bool plain = f.geti("plainapi");
  int bc = (int)f.geti("bc");
  if (plain) { s2pRaw = 1; nbRaw = 1; }
  bool s2p = s2pRaw != 0, nb = nbRaw != 0;
  bool canon = (s2pRaw == 0 || s2pRaw == 1) && (nbRaw == 0 || nbRaw == 1);
  ListHolder<A> h;
  h.build(l);
  const typename A::QL *ql = h.nodes.data();
  LedgerMM mm;
  UriMemoryManager *m = f.geti("mm") ? &mm.mm : nullptr;
  // required size
  int R = -1;
  int rc = plain ? A::ComposeQueryCharsRequired(ql, &R) : A::ComposeQueryCharsRequiredEx(ql, &R, (UriBool)s2pRaw, (UriBool)nbRaw);
  VF_REQUIRE(rc == 0, "%s: charsRequired rc=%d", A::name(), rc);
  long long T = worst_case(l, nb);
  std::string want = m_compose(l, s2p, nb);
  if (!canon) {
    // the text under whichever reading of the odd flag value the library applies, taken from an ample guarded buffer
    stats().relax("non_canonical_boolean_flag:safety_clauses_only");
    VF_REQUIRE(R >= 0 && R < (1 << 20), "%s: implausible charsRequired %d", A::name(), R);
    std::set<std::string> readings;
    for (int a = 0; a < 2; a++) for (int b = 0; b < 2; b++) {
      if ((s2pRaw == 0 || s2pRaw == 1) && a != (s2pRaw != 0)) continue;
      if ((nbRaw == 0 || nbRaw == 1) && b != (nbRaw != 0)) continue;
      readings.insert(m_compose(l, a != 0, b != 0));
    }
    size_t amp = (size_t)worst_case(l, true) + 8;
    Ch *dest = gb().template right_chars<Ch>(amp);
    for (size_t i = 0; i < amp; i++) dest[i] = (Ch)0xAA;
    int cw = -7;
    rc = A::ComposeQueryEx(dest, ql, (int)amp, &cw, (UriBool)s2pRaw, (UriBool)nbRaw);
    VF_REQUIRE(rc == 0, "%s: composing into an ample buffer failed rc=%d", A::name(), rc);
    size_t len = 0;
    while (len < amp && dest[len] != 0) len++;
    VF_REQUIRE(len < amp && cw == (int)len + 1, "%s: odd flag value: charsWritten=%d, text length %zu", A::name(), cw, len);
    want = narrow<Ch>(dest, dest + len);
    VF_REQUIRE(readings.count(want) == 1, "%s: flags (%d,%d): composed '%s' is the composition under neither reading of the flag", A::name(), s2pRaw, nbRaw, esc(want).c_str());
    VF_REQUIRE((long long)R >= (long long)want.size(), "%s: flags (%d,%d): charsRequired=%d is smaller than the composed text (%zu)", A::name(), s2pRaw, nbRaw, R, want.size());
  } else {
  VF_REQUIRE((long long)R >= (long long)want.size(), "%s: charsRequired=%d is smaller than the composed text (%zu)", A::name(), R, want.size());
  VF_REQUIRE((long long)R == T, "%s: charsRequired=%d, documented worst case %lld", A::name(), R, T);
  }
  // every capacity
  std::vector<int> caps;
  if (R <= 300) for (int c = -1; c <= R + 2; c++) caps.push_back(c);
  else { for (int c = -1; c <= 6; c++) caps.push_back(c); for (int c = (int)want.size() - 3; c <= (int)want.size() + 3; c++) caps.push_back(c); for (int c = R - 3; c <= R + 2; c++) caps.push_back(c); for (int c = 7; c < R - 3; c += 11) caps.push_back(c); }
  int icnull = (int)f.geti("icnull");
  for (int c : caps) {
    size_t cap = c > 0 ? (size_t)c : 0;
    Ch *dest = gb().template right_chars<Ch>(cap);
    for (size_t i = 0; i < cap; i++) dest[i] = (Ch)0xAA;
    int cw = -7;
    rc = plain ? A::ComposeQuery(dest, ql, c, icnull ? nullptr : &cw) : A::ComposeQueryEx(dest, ql, c, icnull ? nullptr : &cw, (UriBool)s2pRaw, (UriBool)nbRaw);
    stats().sub_evaluations++;
    if (c >= R + 1) VF_REQUIRE(rc == 0, "%s: capacity %d >= charsRequired+1=%d but rc=%d", A::name(), c, R + 1, rc);
    if (rc == 0) {
      size_t len = 0;
      while (len < cap && dest[len] != 0) len++;
      VF_REQUIRE(len < cap, "%s: capacity %d: success but the text is not terminated inside the buffer", A::name(), c);
      if (!icnull) VF_REQUIRE(cw == (int)len + 1 && cw <= c, "%s: capacity %d: charsWritten=%d, text length %zu", A::name(), c, cw, len);
      std::string got = narrow<Ch>(dest, dest + len);
      VF_REQUIRE(narrowable<Ch>(dest, dest + len) && got == want, "%s: capacity %d: composed '%s', expected '%s'", A::name(), c, esc(got).c_str(), esc(want).c_str());
    } else {
      VF_REQUIRE(rc == URI_ERROR_OUTPUT_TOO_LARGE, "%s: capacity %d: rc=%d, expected the too-large code", A::name(), c, rc);
      if (c > 0 && c <= R && l.size() >= 2) *nontrivial = true;
    }
  }
  // legality of the composed text inside a query
  for (unsigned char ch : want) VF_REQUIRE(is_unres(ch) || ch == '%' || ch == '+' || ch == '&' || ch == '=', "%s: composed text contains '%c'", A::name(), ch);
  VF_REQUIRE(uriref_matcher().matches("?" + want), "%s: composed text '%s' is not a legal query", A::name(), esc(want).c_str());
  // malloc variant
  Ch *ms = nullptr;
  libc_ledger().track = true;
  long before = libc_ledger().outstanding;
  rc = plain && !m ? A::ComposeQueryMalloc(&ms, ql) : A::ComposeQueryMallocExMm(&ms, ql, (UriBool)s2pRaw, (UriBool)nbRaw, m);
  VF_REQUIRE(rc == 0 && ms != nullptr, "%s: composeQueryMalloc rc=%d", A::name(), rc);
  {
    size_t len = 0; while (ms[len] != 0) len++;
    std::string got = narrow<Ch>(ms, ms + len);
    VF_REQUIRE(got == want, "%s: malloc variant composed '%s', expected '%s'", A::name(), esc(got).c_str(), esc(want).c_str());
  }
  // round trip: dissect the composed text with matching options
  typename A::QL *out = nullptr;
  int count = -5;
  std::basic_string<Ch> ww = widen<Ch>(want);
  std::unique_ptr<Ch[]> exact(new Ch[ww.size()]);
  if (!ww.empty()) memcpy(exact.get(), ww.data(), ww.size() * sizeof(Ch));
  rc = A::DissectQueryMallocExMm(&out, icnull ? nullptr : &count, exact.get(), exact.get() + ww.size(), s2p, (UriBreakConversion)bc, m);
  VF_REQUIRE(rc == 0, "%s: dissect rc=%d", A::name(), rc);
  if (!canon) {  // which list comes back depends on the reading of the odd flag: not judged
    if (m) { A::FreeQueryListMm(out, m); m->free(m, ms); VF_REQUIRE(mm.outstanding() == 0 && mm.bad_free == 0, "%s: manager ledger unbalanced", A::name()); }
    else { A::FreeQueryList(out); free(ms); libc_ledger().outstanding--; libc_ledger().live.erase(ms); }
    return Verdict::pass();
  }
  std::vector<Item> expect;
  for (auto &it : l) if (!(it.key.empty() && !it.hasValue)) expect.push_back({expect_after(it.key, nb, bc), it.hasValue, expect_after(it.value, nb, bc)});
  size_t k = 0;
  for (typename A::QL *w = out; w; w = w->next, k++) {
    VF_REQUIRE(k < expect.size(), "%s: dissect returned more items than expected (%zu)", A::name(), expect.size());
    size_t kl = 0; while (w->key[kl]) kl++;
    std::string gk = narrow<Ch>(w->key, w->key + kl);
    VF_REQUIRE(gk == expect[k].key, "%s: item %zu key '%s', expected '%s' (composed '%s')", A::name(), k, esc(gk).c_str(), esc(expect[k].key).c_str(), esc(want).c_str());
    VF_REQUIRE((w->value != nullptr) == expect[k].hasValue, "%s: item %zu value %s, expected %s", A::name(), k, w->value ? "present" : "NULL", expect[k].hasValue ? "present" : "NULL");
    if (w->value) {
      size_t vl = 0; while (w->value[vl]) vl++;
      std::string gv = narrow<Ch>(w->value, w->value + vl);
      VF_REQUIRE(gv == expect[k].value, "%s: item %zu value '%s', expected '%s'", A::name(), k, esc(gv).c_str(), esc(expect[k].value).c_str());
    }
  }
  VF_REQUIRE(k == expect.size(), "%s: dissect returned %zu items, expected %zu", A::name(), k, expect.size());
  if (!icnull) VF_REQUIRE(count == (int)expect.size(), "%s: itemCount=%d, list length %zu", A::name(), count, expect.size());
  // release through the manager; nothing may stay outstanding
  if (m) { A::FreeQueryListMm(out, m); m->free(m, ms); VF_REQUIRE(mm.outstanding() == 0 && mm.bad_free == 0, "%s: manager ledger unbalanced (%zu outstanding) %s", A::name(), mm.outstanding(), mm.bad_free_what.c_str()); }
  else { A::FreeQueryList(out); free(ms); libc_ledger().outstanding--; libc_ledger().live.erase(ms); VF_REQUIRE(libc_ledger().outstanding == before, "%s: default manager ledger unbalanced", A::name()); }
  return Verdict::pass();
}

// ---- huge class: one shared buffer of 'a', items just below the per-item limits ---------------
static const size_t HUGE_BUF = (size_t)INT_MAX / 3 + 64;
static char *huge_buffer() {
  // ~716 MB of 'a' backed by one 2 MiB memfd mapped over and over (a few MB of real memory)
  static char *b = nullptr;
  static bool tried = false;
  if (tried) return b;
  tried = true;
  const size_t CH = 2u << 20;
  size_t total = ((HUGE_BUF + 1 + CH - 1) / CH) * CH;
  int fd = memfd_create("vf_huge", 0);
  if (fd < 0) return nullptr;
  std::vector<char> chunk(CH, 'a');
  if (write(fd, chunk.data(), CH) != (ssize_t)CH) { close(fd); return nullptr; }
  char *base = (char *)mmap(nullptr, total, PROT_NONE, MAP_PRIVATE | MAP_ANONYMOUS | MAP_NORESERVE, -1, 0);
  if (base == MAP_FAILED) { close(fd); return nullptr; }
  for (size_t off = 0; off + CH <= total; off += CH) {
    bool last = off + CH == total;
    void *m = mmap(base + off, CH, last ? (PROT_READ | PROT_WRITE) : PROT_READ, (last ? MAP_PRIVATE : MAP_SHARED) | MAP_FIXED, fd, 0);
    if (m == MAP_FAILED) { close(fd); return nullptr; }
  }
  close(fd);
  // the usable buffer ends exactly at the end of the mapping: [end - HUGE_BUF - 1, end), last byte NUL
  b = base + total - (HUGE_BUF + 1);
  b[HUGE_BUF] = 0;
  return b;
}
static Verdict check_huge(const Fields &f) {
  char *buf = huge_buffer();
  if (!buf) return Verdict::discard();
  bool nb = f.geti("nb");
  long long w = nb ? 6 : 3;
  long long lim = (long long)INT_MAX / w;  // lengths >= lim are refused per item
  int n = (int)f.geti("n");
  std::vector<UriQueryListA> nodes((size_t)n);
  long long T = 0;
  bool perItemTooBig = false;
  long long lastVl = 0, lastKl = 0;
  auto pickLen = [&](long long sel) -> long long {
    switch (sel % 8) {
      case 0: return 10;
      case 1: return lim / 2 - 5;
      case 2: return lim - 2;
      case 3: return lim - 1;
      case 4: return lim;
      case 5: return lim + 1;
      case 6: return lim - 1000000;
      default: return lim / 3;
    }
  };
  for (int i = 0; i < n; i++) {
    long long kl = pickLen(f.geti("klen." + std::to_string(i)));
    long long vsel = f.geti("vlen." + std::to_string(i)) % 9;
    bool hasV = vsel != 8;
    long long vl = hasV ? pickLen(vsel) : 0;
    if (kl > (long long)HUGE_BUF) kl = HUGE_BUF;
    if (vl > (long long)HUGE_BUF) vl = HUGE_BUF;
    nodes[(size_t)i].key = buf + (HUGE_BUF - (size_t)kl);
    nodes[(size_t)i].value = hasV ? buf + (HUGE_BUF - (size_t)vl) : nullptr;
    nodes[(size_t)i].next = i + 1 < n ? &nodes[(size_t)i + 1] : nullptr;
    if (kl >= lim || vl >= lim) perItemTooBig = true;
    lastVl = vl; lastKl = kl;
    T += (i ? 1 : 0) + w * kl + (hasV ? 1 + w * vl : 0);
  }
  int tune = (int)f.geti("tune");
  if (tune > 0 && n >= 1 && nodes[(size_t)n - 1].value != nullptr && !perItemTooBig) {
    // T = rest + w * vl(last): solve for vl so that T == INT_MAX + (tune - 3) if that is a whole number below the per-item limit
    long long vlOld = lastVl;
    bool itemMode = f.geti("tunemode") == 1 && n >= 2;
    long long rest = itemMode ? 1 + w * lastKl + 1 : T - w * vlOld;
    long long target = (long long)INT_MAX + (tune - 3);
    if ((target - rest) % w == 0) {
      long long vl = (target - rest) / w;
      if (vl >= 0 && vl < lim && vl <= (long long)HUGE_BUF) {
        nodes[(size_t)n - 1].value = buf + (HUGE_BUF - (size_t)vl);
        T = T - w * vlOld + w * vl;
        stats().hit(std::string(itemMode ? "huge:last_item_tuned_to_INT_MAX" : "huge:tuned_to_INT_MAX") + (tune < 3 ? "-" : "+") + std::to_string(tune < 3 ? 3 - tune : tune - 3));
      }
    }
  }
  int R = -1;
  int rc = uriComposeQueryCharsRequiredExA(nodes.data(), &R, URI_TRUE, nb ? URI_TRUE : URI_FALSE);
  stats().sub_evaluations++;
  std::string klass = (!perItemTooBig && T > INT_MAX) ? "F-Q1" : "";
  if (T > INT_MAX || perItemTooBig) {
    if (rc == 0) return Verdict::fail("huge list: worst-case size " + std::to_string(T) + " exceeds INT_MAX but charsRequired succeeded with " + std::to_string(R), klass);
  } else {
    if (rc != 0) return Verdict::fail("huge list: worst-case size " + std::to_string(T) + " fits but rc=" + std::to_string(rc));
    if ((long long)R != T) return Verdict::fail("huge list: charsRequired=" + std::to_string(R) + ", expected " + std::to_string(T));
  }
  // the malloc variant must refuse as well (the allocation itself is refused by a manager that rejects > 64 MiB)
  LedgerMM mm;
  mm.refuse_above = 64u << 20;
  char *out = nullptr;
  rc = uriComposeQueryMallocExMmA(&out, nodes.data(), URI_TRUE, nb ? URI_TRUE : URI_FALSE, &mm.mm);
  if (T > INT_MAX || perItemTooBig) {
    if (rc == 0) { mm.mm.free(&mm.mm, out); return Verdict::fail("huge list: composeQueryMalloc succeeded although the size exceeds INT_MAX", klass); }
  } else if (rc == 0) mm.mm.free(&mm.mm, out);
  if (mm.outstanding() != 0) return Verdict::fail("huge list: blocks outstanding after composeQueryMalloc");
  // composing straight into a small caller buffer (no size query first): every list here is longer than 8 characters,
  // so the call must refuse; the buffer is 8 characters flush against a guard page
  {
    for (int cap : {8, 64}) {
      char *dest = gb().right_chars<char>((size_t)cap);
      memset(dest, 0xAA, (size_t)cap);
      int cw = -7;
      rc = uriComposeQueryExA(dest, nodes.data(), cap, &cw, URI_TRUE, nb ? URI_TRUE : URI_FALSE);
      stats().sub_evaluations++;
      if (rc == 0) {
        size_t len = 0;
        while (len < (size_t)cap && dest[len] != 0) len++;
        if (len >= (size_t)cap || cw != (int)len + 1) return Verdict::fail("huge list: composing into a " + std::to_string(cap) + "-character buffer reports success without a terminated text inside it", klass);
        if (T > cap - 1 && T > INT_MAX / 2) return Verdict::fail("huge list: composing into a " + std::to_string(cap) + "-character buffer succeeded (worst case " + std::to_string(T) + ")", klass);
      }
    }
  }
  stats().hit(perItemTooBig ? "huge:item_beyond_limit" : T > INT_MAX ? "huge:sum_beyond_INT_MAX" : "huge:fits");
  stats().nontrivial(f.text(), "huge list n=" + std::to_string(n) + " worst-case=" + std::to_string(T));
  return Verdict::pass();
}

static Verdict check(const Fields &f) {
  if (f.geti("huge")) return check_huge(f);
  std::vector<Item> l;
  int n = (int)f.geti("n");
  for (int i = 0; i < n; i++) {
    Item it;
    it.key = f.get("k." + std::to_string(i));
    it.hasValue = f.has("v." + std::to_string(i));
    it.value = f.get("v." + std::to_string(i));
    if (it.key.find('\0') != std::string::npos || it.value.find('\0') != std::string::npos) return Verdict::discard();
    l.push_back(it);
  }
  if (l.empty()) return Verdict::discard();
  bool nt = false;
  Verdict v = check_type<Api<char>>(f, l, &nt);
  if (v.kind != Verdict::PASS) return v;
  v = check_type<Api<wchar_t>>(f, l, &nt);
  if (v.kind != Verdict::PASS) return v;
  Stats &S = stats();
  bool special = false;
  for (auto &it : l) { if (!it.hasValue || it.value.empty() || it.key.empty()) special = true; for (unsigned char c : it.key + it.value) if (!is_unres(c)) special = true; }
  for (auto &it : l) if (it.key.empty() && !it.hasValue) S.hit("has_vanishing_item");
  S.hit("items=" + std::to_string(l.size()));
  if (nt && special) S.nontrivial(f.text(), m_compose(l, f.geti("s2p"), f.geti("nb")));
  return Verdict::pass();
}

const Harness vf::HARNESS = {"C17", gen, check, nullptr, nullptr};
