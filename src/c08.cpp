// C08  Normalization yields the RFC 3986 syntax-based normal form.
// Oracle: M_norm per mask bit on the components M_split assigns (model equality =>
// "exactly the selected components, nothing else"); all 64 masks; borrowed and
// owned start states; twice == once; the reported mask is sufficient; mask 0 =>
// already normal.
#include "gen.hpp"
#include "parse_common.hpp"
#include "pathenum.hpp"

using namespace vf;

// case/percent-rich vocabulary on top of G_uri
static std::string g_norm_uri(Tape &t) {
  GenUri u = g_uri_parts(t);
  if (t.chance(1, 3) && u.hasScheme) for (char &c : u.scheme) if (t.coin()) c = (char)toupper((unsigned char)c);
  if (t.chance(1, 3) && u.hasAuth) {
    static const std::vector<std::string> hosts = {"EXAMPLE.com", "Ex%41mple", "h%3a", "H%7e", "%c3%A4.ORG", "[V1.AbC]", "[vF.X:Y]", "[::FFFF:1.2.3.4]", "[AB::CD]",
                                                   "a%2Fb", "%61", "x%2e"};
    u.auth.host = t.pick(hosts);
  }
  return u.text();
}
static Fields gen(Tape &t) {
  Fields f;
  LongMode lm(t);
  if (lm.on()) f.seti("long", 1);
  f.set("text", g_norm_uri(t));
  f.seti("mm", t.below(2));
  return f;
}

static std::string classify(const MUri &in, unsigned mask, bool second, const std::string &got) {
  (void)got;
  if (second) return "F-N8";
  if ((mask & M_HOST) && in.hasAuth && in.hostKind == HK_REG) {
    std::string n = m_norm_regname(in.host);
    if (n != m_lower(n)) return "F-N6";  // a non-unreserved triplet with a hex letter survives
  }
  if ((mask & M_PATH) && in.hasAuth && !in.hasScheme) return "F-N7";
  return "";
}

// fault > 0 (recording manager only): the fault-th allocation of the first normalising call fails once; a call that
// reports the failure ends the sub-case (*failed = true), one that still reports success is held to the model
template <class A> static Verdict norm_once(const std::string &text, const MUri &in, unsigned mask, bool owned, bool useMm, std::string *out, int fault = 0, bool *failed = nullptr) {
  using Ch = typename A::Ch;
  LedgerMM mm;
  UriMemoryManager *m = useMm ? &mm.mm : nullptr;
  std::basic_string<Ch> s = widen<Ch>(text);
  std::unique_ptr<Ch[]> buf(new Ch[s.size()]);
  if (!s.empty()) memcpy(buf.get(), s.data(), s.size() * sizeof(Ch));
  typename A::Uri u;
  const Ch *ep;
  int rc = A::ParseSingleUriExMm(&u, buf.get(), buf.get() + s.size(), &ep, m);
  if (rc != 0) return Verdict::discard();
  struct Cl { typename A::Uri *u; UriMemoryManager *m; ~Cl() { A::FreeUriMembersMm(u, m); } } cl{&u, m};
  if (owned) VF_REQUIRE(A::MakeOwnerMm(&u, m) == 0, "%s: uriMakeOwner failed", A::name());
  if (fault > 0 && useMm) { mm.reset_counts(); mm.fail_at = (uint64_t)fault; }
  rc = useMm ? A::NormalizeSyntaxExMm(&u, mask, m) : (mask == 63 ? A::NormalizeSyntaxEx(&u, (unsigned)-1) : A::NormalizeSyntaxEx(&u, mask));
  bool bit = mm.failed > 0;
  mm.reset_plan();
  VF_REQUIRE(mm.bad_free == 0, "%s: mask %u: during normalisation the manager was handed a block it never returned: %s", A::name(), mask, mm.bad_free_what.c_str());
  if (bit && rc != 0) {
    VF_REQUIRE(rc == URI_ERROR_MALLOC, "%s: allocation %d failed but normalisation rc=%d", A::name(), fault, rc);
    if (failed) *failed = true;
    stats().hit("normalisation_ran_out_of_memory");
    return Verdict::pass();
  }
  if (bit) stats().hit("fault_bit_but_success_reported");
  VF_REQUIRE(rc == 0, "%s: normalisation rc=%d", A::name(), rc);
  stats().sub_evaluations++;
  std::string wf = wellformed<A>(u);
  VF_REQUIRE(wf.empty(), "%s: mask %u: not well formed after normalisation: %s", A::name(), mask, wf.c_str());
  std::string t1;
  VF_REQUIRE(to_string<A>(u, &t1), "%s: uriToString failed after normalisation", A::name());
  MNormed e = m_normalize(in, mask);
  bool ok = false;
  std::string want;
  {
    MUri x = e.u;
    x.path = e.path.primary;
    want = m_recompose(x);
    ok = t1 == want;
    for (auto &alt : e.path.also) { x.path = alt; if (t1 == m_recompose(x)) { ok = true; stats().relax("path_corner_alternative_spelling"); } }
  }
  if (!ok) {
    char b[64];
    snprintf(b, sizeof b, "%s: mask %u %s: ", A::name(), mask, owned ? "owned" : "borrowed");
    return Verdict::fail(std::string(b) + "'" + esc(text) + "' normalised to '" + esc(t1) + "', expected '" + esc(want) + "'", classify(in, mask, false, t1));
  }
  // twice == once
  rc = useMm ? A::NormalizeSyntaxExMm(&u, mask, m) : A::NormalizeSyntaxEx(&u, mask);
  VF_REQUIRE(rc == 0, "%s: second normalisation rc=%d", A::name(), rc);
  std::string t2;
  VF_REQUIRE(to_string<A>(u, &t2), "%s: uriToString failed after second normalisation", A::name());
  if (t2 != t1) {
    char b[64];
    snprintf(b, sizeof b, "%s: mask %u: ", A::name(), mask);
    return Verdict::fail(std::string(b) + "'" + esc(text) + "' -> '" + esc(t1) + "' -> '" + esc(t2) + "': applying it twice differs from once", classify(in, mask, true, t2));
  }
  *out = t1;
  // release through the manager the URI was built with: every block must be one of its own, none may stay behind
  if (useMm) {
    A::FreeUriMembersMm(&u, m);
    VF_REQUIRE(mm.bad_free == 0, "%s: mask %u: releasing the normalised URI handed the manager a block it never returned: %s", A::name(), mask, mm.bad_free_what.c_str());
    VF_REQUIRE(mm.outstanding() == 0, "%s: mask %u: %zu block(s) of the manager outstanding after the URI was released", A::name(), mask, mm.outstanding());
  }
  return Verdict::pass();
}

template <class A> static Verdict check_type(const std::string &text, const MUri &in, bool useMm, int *changedComponents, bool *dots) {
  using Ch = typename A::Ch;
  std::string full, none;
  for (int owned = 0; owned < 2; owned++) {
    for (unsigned mask = 0; mask < 64; mask++) {
      std::string t;
      Verdict v = norm_once<A>(text, in, mask, owned != 0, useMm, &t);
      if (v.kind != Verdict::PASS) return v;
      if (mask == 63) full = t;
      if (mask == 0) none = t;
    }
  }
  // allocation failures (recording manager): every position k, both start states, the full mask
  if (useMm) {
    for (int owned = 0; owned < 2; owned++) {
      for (int k = 1; k <= 12; k++) {
        std::string t;
        bool failed = false;
        Verdict v = norm_once<A>(text, in, 63, owned != 0, true, &t, k, &failed);
        if (v.kind != Verdict::PASS) return v;
        if (!failed && t != full) return Verdict::fail(std::string(A::name()) + ": with allocation " + std::to_string(k) + " failing the call reports success but gives '" + esc(t) + "' instead of '" + esc(full) + "'");
        if (!failed) break;  // the plan did not bite any more: larger k behave the same
      }
    }
  }
  // the mask query
  std::basic_string<Ch> s = widen<Ch>(text);
  Parsed<A> p;
  parse_via<A>(p, PE_SINGLE_EX, s);
  unsigned m1 = A::NormalizeSyntaxMaskRequired(&p.uri), m2 = 0xffff;
  VF_REQUIRE(A::NormalizeSyntaxMaskRequiredEx(&p.uri, &m2) == 0, "%s: mask query failed", A::name());
  VF_REQUIRE(m1 == m2, "%s: the two mask queries disagree (%u vs %u)", A::name(), m1, m2);
  VF_REQUIRE(m1 < 64, "%s: mask query returned unknown bits %u", A::name(), m1);
  std::string viaMask;
  Verdict v = norm_once<A>(text, in, m1, false, useMm, &viaMask);
  if (v.kind != Verdict::PASS) return v;
  if (viaMask != full)
    return Verdict::fail(std::string(A::name()) + ": reported mask " + std::to_string(m1) + " is not sufficient: '" + esc(viaMask) + "' vs full '" + esc(full) + "'");
  if (m1 == 0 && full != none)
    return Verdict::fail(std::string(A::name()) + ": mask query says 0 but full normalisation changes '" + esc(none) + "' to '" + esc(full) + "'");
  // statistics
  MNormed e = m_normalize(in, 63);
  int ch = (e.u.scheme != in.scheme) + (e.u.user != in.user) + (e.u.host != in.host) + (e.path.primary != in.path) + (e.u.query != in.query) + (e.u.frag != in.frag);
  *changedComponents = ch;
  *dots = e.path.dotsRemoved;
  if (e.path.corner) stats().hit("path_corner=" + std::to_string(e.path.corner));
  return Verdict::pass();
}

static Verdict check(const Fields &f) {
  std::string text = f.get("text");
  if (!uriref_matcher().matches(text)) return Verdict::discard();
  MUri in = m_split(text);
  int ch = 0; bool dots = false;
  bool useMm = f.geti("mm") != 0;
  Verdict v = check_type<Api<char>>(text, in, useMm, &ch, &dots);
  if (v.kind != Verdict::PASS) return v;
  v = check_type<Api<wchar_t>>(text, in, useMm, &ch, &dots);
  if (v.kind != Verdict::PASS) return v;
  stats().hit("changed_components=" + std::to_string(ch));
  if (dots) stats().hit("dot_segments_removed");
  if (ch >= 2 || dots) stats().nontrivial(text, esc(text));
  return Verdict::pass();
}

static std::string selftest() {
  struct { const char *in, *out; } ex[] = {
      {"eXAMPLE://a/./b/../b/%63/%7bfoo%7d", "example://a/b/c/%7Bfoo%7D"}, {"http://examp%4Ce.com/", "http://example.com/"},
      {"HTTP://a:b@HOST:123/./1/2/../%41?abc#def", "http://a:b@host:123/1/A?abc#def"}, {"../../abc/../def", "../../def"},
      {"./abc:def", "./abc:def"}, {"def/.", "def/"}, {"http://a/..///..", "http://a//"}, {"HTTP://www.EXAMPLE.com/", "http://www.example.com/"},
      {"example://a/b/c/%7Bfoo%7D", "example://a/b/c/%7Bfoo%7D"}};
  for (auto &e : ex) {
    MNormed n = m_normalize(m_split(e.in), 63);
    MUri x = n.u;
    x.path = n.path.primary;
    if (m_recompose(x) != e.out) return std::string("M_norm fails on '") + e.in + "': " + m_recompose(x);
  }
  return "";
}

// every text of the bounded path domain (bases, references, absolute URIs), all 64 masks, both ownerships
static Verdict enumerate(int tier, int shard, int nshards, Fields *failing) {
  static std::vector<std::string> texts = [&]() {
    PathDomain d = path_domain(1);  // cheap enough for the larger domain in both tiers
    (void)tier;
    std::vector<std::string> v = d.bases;
    v.insert(v.end(), d.refs.begin(), d.refs.end());
    v.insert(v.end(), d.abss.begin(), d.abss.end());
    std::sort(v.begin(), v.end());
    v.erase(std::unique(v.begin(), v.end()), v.end());
    return v;
  }();
  return enum_drive(texts.size(), shard, nshards, check, [&](uint64_t i) {
    Fields f;
    f.set("text", texts[(size_t)i]); f.seti("mm", (long long)(i & 1));
    return f;
  }, failing);
}

const Harness vf::HARNESS = {"C08", gen, check, enumerate, selftest};
