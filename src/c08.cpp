// C08  Normalization yields the RFC 3986 syntax-based normal form.
// Oracle: M_norm per mask bit on the components M_split assigns (model equality =>
// "exactly the selected components, nothing else"); all 64 masks; borrowed and
// owned start states; twice == once; the reported mask is sufficient; mask 0 =>
// already normal.
#include "hist.hpp"
#include "pathenum.hpp"

using namespace vf;

// case/percent-rich vocabulary on top of G_uri
static std::string g_norm_uri(Tape &t) {
  if (t.below(24) == 23) return t.pick(famous_texts());  // references that other specifications / browsers treat specially
  GenUri u = g_uri_parts(t);
  if (t.chance(1, 3) && u.hasScheme) for (char &c : u.scheme) if (t.coin()) c = (char)toupper((unsigned char)c);
  if (t.chance(1, 3) && u.hasAuth) {
    static const std::vector<std::string> hosts = {"EXAMPLE.com", "Ex%41mple", "h%3a", "H%7e", "%c3%A4.ORG", "[V1.AbC]", "[vF.X:Y]", "[::FFFF:1.2.3.4]", "[AB::CD]",
                                                   "a%2Fb", "%61", "x%2e"};
    u.auth.host = t.pick(hosts);
  }
  return u.text();
}
static Fields gen(Tape &t) {
  Fields f;
  // one case in six: the URI to normalise is an object a short history of library calls left behind (resolved, created,
  // normalised with a partial mask, owned, read back), normalised as it stands; the model is fed with its text
  if (t.below(6) == 5) {
    int hi = t.weighted({4, 3, 2, 1});
    int mask = t.chance(1, 2) ? 63 : (int)t.below(64);
    ops_to_fields(f, g_history(t, SEG_ANY, false, 5));
    f.seti("hi", hi); f.seti("mask", mask);
    return f;
  }
  LongMode lm(t);
  if (lm.on()) f.seti("long", 1);
  f.set("text", g_norm_uri(t));
  f.seti("mm", t.below(2));
  f.seti("locale", t.chance(15, 16) ? 0 : 1);  // one case in 16 runs under C.UTF-8 (case mapping must not follow the locale)
  return f;
}

static std::string classify(const MUri &in, unsigned mask, bool second, const std::string &got) {
  (void)got;
  if (second) return "F-N8";
  if ((mask & M_HOST) && in.hasAuth && in.hostKind == HK_REG) {
    std::string n = m_norm_regname(in.host);
    if (n != m_lower(n)) return "F-N6";  // a non-unreserved triplet with a hex letter survives
  }
  if ((mask & M_PATH) && in.hasAuth && !in.hasScheme) return "F-N7";
  return "";
}

// fault > 0 (recording manager only): the fault-th allocation of the first normalising call fails once; a call that
// reports the failure ends the sub-case (*failed = true), one that still reports success is held to the model
template <class A> static Verdict norm_once(const std::string &text, const MUri &in, unsigned mask, bool owned, bool useMm, std::string *out, int fault = 0, bool *failed = nullptr) {
  using Ch = typename A::Ch;
  LedgerMM mm;
  UriMemoryManager *m = useMm ? &mm.mm : nullptr;
  std::basic_string<Ch> s = widen<Ch>(text);
  std::unique_ptr<Ch[]> buf(new Ch[s.size()]);
  if (!s.empty()) memcpy(buf.get(), s.data(), s.size() * sizeof(Ch));
  typename A::Uri u;
  const Ch *ep;
  int rc = A::ParseSingleUriExMm(&u, buf.get(), buf.get() + s.size(), &ep, m);
  if (rc != 0) return Verdict::discard();
  struct Cl { typename A::Uri *u; UriMemoryManager *m; ~Cl() { A::FreeUriMembersMm(u, m); } } cl{&u, m};
  if (owned) VF_REQUIRE(A::MakeOwnerMm(&u, m) == 0, "%s: uriMakeOwner failed", A::name());
  if (fault > 0 && useMm) { mm.reset_counts(); mm.fail_at = (uint64_t)fault; }
  rc = useMm ? A::NormalizeSyntaxExMm(&u, mask, m) : (mask == 63 ? A::NormalizeSyntaxEx(&u, (unsigned)-1) : A::NormalizeSyntaxEx(&u, mask));
  bool bit = mm.failed > 0;
  mm.reset_plan();
  VF_REQUIRE(mm.bad_free == 0, "%s: mask %u: during normalisation the manager was handed a block it never returned: %s", A::name(), mask, mm.bad_free_what.c_str());
  if (bit && rc != 0) {
    VF_REQUIRE(rc == URI_ERROR_MALLOC, "%s: allocation %d failed but normalisation rc=%d", A::name(), fault, rc);
    if (failed) *failed = true;
    stats().hit("normalisation_ran_out_of_memory");
    return Verdict::pass();
  }
  if (bit) stats().hit("fault_bit_but_success_reported");
  VF_REQUIRE(rc == 0, "%s: normalisation rc=%d", A::name(), rc);
  stats().sub_evaluations++;
  std::string wf = wellformed<A>(u);
  VF_REQUIRE(wf.empty(), "%s: mask %u: not well formed after normalisation: %s", A::name(), mask, wf.c_str());
  std::string t1;
  VF_REQUIRE(to_string<A>(u, &t1), "%s: uriToString failed after normalisation", A::name());
  MNormed e = m_normalize(in, mask);
  bool ok = false;
  std::string want;
  {
    MUri x = e.u;
    x.path = e.path.primary;
    want = m_recompose(x);
    ok = t1 == want;
    for (auto &alt : e.path.also) { x.path = alt; if (t1 == m_recompose(x)) { ok = true; stats().relax("path_corner_alternative_spelling"); } }
  }
  if (!ok) {
    char b[64];
    snprintf(b, sizeof b, "%s: mask %u %s: ", A::name(), mask, owned ? "owned" : "borrowed");
    return Verdict::fail(std::string(b) + "'" + esc(text) + "' normalised to '" + esc(t1) + "', expected '" + esc(want) + "'", classify(in, mask, false, t1));
  }
  // twice == once
  rc = useMm ? A::NormalizeSyntaxExMm(&u, mask, m) : A::NormalizeSyntaxEx(&u, mask);
  VF_REQUIRE(rc == 0, "%s: second normalisation rc=%d", A::name(), rc);
  std::string t2;
  VF_REQUIRE(to_string<A>(u, &t2), "%s: uriToString failed after second normalisation", A::name());
  if (t2 != t1) {
    char b[64];
    snprintf(b, sizeof b, "%s: mask %u: ", A::name(), mask);
    return Verdict::fail(std::string(b) + "'" + esc(text) + "' -> '" + esc(t1) + "' -> '" + esc(t2) + "': applying it twice differs from once", classify(in, mask, true, t2));
  }
  *out = t1;
  // release through the manager the URI was built with: every block must be one of its own, none may stay behind
  if (useMm) {
    A::FreeUriMembersMm(&u, m);
    VF_REQUIRE(mm.bad_free == 0, "%s: mask %u: releasing the normalised URI handed the manager a block it never returned: %s", A::name(), mask, mm.bad_free_what.c_str());
    VF_REQUIRE(mm.outstanding() == 0, "%s: mask %u: %zu block(s) of the manager outstanding after the URI was released", A::name(), mask, mm.outstanding());
  }
  return Verdict::pass();
}

static bool matches_model(const MUri &in, unsigned mask, const std::string &got, std::string *want) {
  MNormed e = m_normalize(in, mask);
  MUri x = e.u;
  x.path = e.path.primary;
  *want = m_recompose(x);
  if (got == *want) return true;
  for (auto &alt : e.path.also) { x.path = alt; if (got == m_recompose(x)) { stats().relax("path_corner_alternative_spelling"); return true; } }
  return false;
}

// the history is run twice (it is deterministic): one copy of the chosen object is normalised with the requested mask,
// the other with the mask the query reports for it
template <class A> static Verdict check_history(const Fields &f, std::string *desc, bool *changed) {
  World<A> w1, w2;
  for (auto &op : ops_from_fields(f)) { w1.exec(op); w2.exec(op); }
  std::vector<int> rs;
  for (int k : w1.made_first()) if (!w1.borrowed_by_others(k)) rs.push_back(k);
  if (rs.empty()) return Verdict::discard();
  int i = rs[(size_t)f.geti("hi") % rs.size()];
  std::string text, text2;
  if (!w1.faithful_text(i, &text) || !w2.faithful_text(i, &text2) || text != text2) { stats().hit("history_operand_not_text_faithful"); return Verdict::pass(); }
  MUri in = m_split(text);
  unsigned mask = (unsigned)f.geti("mask");
  std::string origin = w1.at(i).origin;
  *desc = "(" + origin + ")=" + esc(text) + " mask=" + std::to_string(mask);
  auto fail = [&](const std::string &m, const std::string &klass = "") { return Verdict::fail(std::string(A::name()) + ": object out of a history " + *desc + ": " + m, klass); };
  typename A::Uri &u = w1.at(i).uri, &u2 = w2.at(i).uri;
  unsigned m1 = A::NormalizeSyntaxMaskRequired(&u), m2 = 0xffff;
  if (A::NormalizeSyntaxMaskRequiredEx(&u, &m2) != 0 || m1 != m2 || m1 >= 64) return fail("the mask queries fail or disagree");
  int rc = A::NormalizeSyntaxEx(&u, mask);
  if (mask) w1.at(i).borrows.clear();
  if (rc != 0) return fail("normalisation rc=" + std::to_string(rc));
  std::string wf = wellformed<A>(u);
  if (!wf.empty()) return fail("not well formed after normalisation: " + wf);
  std::string t1, want;
  if (!to_string<A>(u, &t1)) return fail("uriToString failed after normalisation");
  if (!matches_model(in, mask, t1, &want)) return fail("normalised to '" + esc(t1) + "', expected '" + esc(want) + "'", classify(in, mask, false, t1));
  if (A::NormalizeSyntaxEx(&u, mask) != 0) return fail("second normalisation failed");
  std::string t2;
  if (!to_string<A>(u, &t2)) return fail("uriToString failed after the second normalisation");
  if (t2 != t1) return fail("'" + esc(t1) + "' -> '" + esc(t2) + "': applying it twice differs from once", classify(in, mask, true, t2));
  // the reported mask is sufficient (second copy), and zero means "already normal"
  rc = A::NormalizeSyntaxEx(&u2, m1);
  if (m1) w2.at(i).borrows.clear();
  if (rc != 0) return fail("normalisation with the reported mask rc=" + std::to_string(rc));
  std::string viaMask, full;
  if (!to_string<A>(u2, &viaMask)) return fail("uriToString failed after normalising with the reported mask");
  matches_model(in, 63, "", &full);
  if (mask == 63) full = t1;
  else { MNormed e = m_normalize(in, 63); if (e.path.corner) full = viaMask; }  // corner spellings: only the library's own full result is a fair reference
  if (viaMask != full) return fail("reported mask " + std::to_string(m1) + " is not sufficient: '" + esc(viaMask) + "' vs full '" + esc(full) + "'");
  if (m1 == 0 && viaMask != text) return fail("mask query says 0 but the text changes");
  stats().hit("history_origin=" + origin.substr(0, 1));
  if (t1 != text) *changed = true;
  return Verdict::pass();
}

template <class A> static Verdict check_type(const std::string &text, const MUri &in, bool useMm, int *changedComponents, bool *dots) {
  using Ch = typename A::Ch;
  std::string full, none;
  for (int owned = 0; owned < 2; owned++) {
    for (unsigned mask = 0; mask < 64; mask++) {
      std::string t;
      Verdict v = norm_once<A>(text, in, mask, owned != 0, useMm, &t);
      if (v.kind != Verdict::PASS) return v;
      if (mask == 63) full = t;
      if (mask == 0) none = t;
    }
  }
  // allocation failures (recording manager): every position k, both start states, the full mask
  if (useMm) {
    for (int owned = 0; owned < 2; owned++) {
      for (int k = 1; k <= 12; k++) {
        std::string t;
        bool failed = false;
        Verdict v = norm_once<A>(text, in, 63, owned != 0, true, &t, k, &failed);
        if (v.kind != Verdict::PASS) return v;
        if (!failed && t != full) return Verdict::fail(std::string(A::name()) + ": with allocation " + std::to_string(k) + " failing the call reports success but gives '" + esc(t) + "' instead of '" + esc(full) + "'");
        if (!failed) break;  // the plan did not bite any more: larger k behave the same
      }
    }
  }
  // the mask query
  std::basic_string<Ch> s = widen<Ch>(text);
  Parsed<A> p;
  parse_via<A>(p, PE_SINGLE_EX, s);
  unsigned m1 = A::NormalizeSyntaxMaskRequired(&p.uri), m2 = 0xffff;
  VF_REQUIRE(A::NormalizeSyntaxMaskRequiredEx(&p.uri, &m2) == 0, "%s: mask query failed", A::name());
  VF_REQUIRE(m1 == m2, "%s: the two mask queries disagree (%u vs %u)", A::name(), m1, m2);
  VF_REQUIRE(m1 < 64, "%s: mask query returned unknown bits %u", A::name(), m1);
  std::string viaMask;
  Verdict v = norm_once<A>(text, in, m1, false, useMm, &viaMask);
  if (v.kind != Verdict::PASS) return v;
  if (viaMask != full)
    return Verdict::fail(std::string(A::name()) + ": reported mask " + std::to_string(m1) + " is not sufficient: '" + esc(viaMask) + "' vs full '" + esc(full) + "'");
  if (m1 == 0 && full != none)
    return Verdict::fail(std::string(A::name()) + ": mask query says 0 but full normalisation changes '" + esc(none) + "' to '" + esc(full) + "'");
  // statistics
  MNormed e = m_normalize(in, 63);
  int ch = (e.u.scheme != in.scheme) + (e.u.user != in.user) + (e.u.host != in.host) + (e.path.primary != in.path) + (e.u.query != in.query) + (e.u.frag != in.frag);
  *changedComponents = ch;
  *dots = e.path.dotsRemoved;
  if (e.path.corner) stats().hit("path_corner=" + std::to_string(e.path.corner));
  return Verdict::pass();
}

static Verdict check(const Fields &f) {
  if (f.has("n")) {
    for (auto &op : ops_from_fields(f)) if (op.kind == 'P' && !uriref_matcher().matches(op.text)) return Verdict::discard();
    std::string d, d2; bool ch = false;
    Verdict v = check_history<Api<char>>(f, &d, &ch);
    if (v.kind != Verdict::PASS) return v;
    v = check_history<Api<wchar_t>>(f, &d2, &ch);
    if (v.kind != Verdict::PASS) return v;
    stats().hit("arm=operand_from_history");
    if (ch) stats().nontrivial(f.text(), d);
    return Verdict::pass();
  }
  std::string text = f.get("text");
  if (!uriref_matcher().matches(text)) return Verdict::discard();
  LocaleArm loc(f.geti("locale") != 0);
  MUri in = m_split(text);
  int ch = 0; bool dots = false;
  bool useMm = f.geti("mm") != 0;
  Verdict v = check_type<Api<char>>(text, in, useMm, &ch, &dots);
  if (v.kind != Verdict::PASS) return v;
  v = check_type<Api<wchar_t>>(text, in, useMm, &ch, &dots);
  if (v.kind != Verdict::PASS) return v;
  stats().hit("changed_components=" + std::to_string(ch));
  if (dots) stats().hit("dot_segments_removed");
  if (ch >= 2 || dots) stats().nontrivial(text, esc(text));
  return Verdict::pass();
}

static std::string selftest() {
  struct { const char *in, *out; } ex[] = {
      {"eXAMPLE://a/./b/../b/%63/%7bfoo%7d", "example://a/b/c/%7Bfoo%7D"}, {"http://examp%4Ce.com/", "http://example.com/"},
      {"HTTP://a:b@HOST:123/./1/2/../%41?abc#def", "http://a:b@host:123/1/A?abc#def"}, {"../../abc/../def", "../../def"},
      {"./abc:def", "./abc:def"}, {"def/.", "def/"}, {"http://a/..///..", "http://a//"}, {"HTTP://www.EXAMPLE.com/", "http://www.example.com/"},
      {"example://a/b/c/%7Bfoo%7D", "example://a/b/c/%7Bfoo%7D"}};
  for (auto &e : ex) {
    MNormed n = m_normalize(m_split(e.in), 63);
    MUri x = n.u;
    x.path = n.path.primary;
    if (m_recompose(x) != e.out) return std::string("M_norm fails on '") + e.in + "': " + m_recompose(x);
  }
  return "";
}

// every text of the bounded path domain (bases, references, absolute URIs), all 64 masks, both ownerships
static Verdict enumerate(int tier, int shard, int nshards, Fields *failing) {
  static std::vector<std::string> texts = [&]() {
    PathDomain d = path_domain(1);  // cheap enough for the larger domain in both tiers
    (void)tier;
    std::vector<std::string> v = d.bases;
    v.insert(v.end(), d.refs.begin(), d.refs.end());
    v.insert(v.end(), d.abss.begin(), d.abss.end());
    std::sort(v.begin(), v.end());
    v.erase(std::unique(v.begin(), v.end()), v.end());
    return v;
  }();
  return enum_drive(texts.size(), shard, nshards, check, [&](uint64_t i) {
    Fields f;
    f.set("text", texts[(size_t)i]); f.seti("mm", (long long)(i & 1));
    return f;
  }, failing);
}

const Harness vf::HARNESS = {"C08", gen, check, enumerate, selftest};
