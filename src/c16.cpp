// C16  Percent-escaping is lossless, bounded and safe in place.
// Oracles: M_esc / M_unesc written from the documentation (two-phase: decode
// triplets, then convert line breaks among the decoded characters), round trip
// unescape(escape(s)) == s (breaks -> CRLF when normalised), output alphabet, size
// bounds enforced by guard-page buffers of exactly 3n+1 / 6n+1 / n+1 characters.
#include <clocale>
#include "gen.hpp"
#include "observe.hpp"

using namespace vf;

static std::string g_text(Tape &t, int maxLen = 24) {
  static const std::vector<std::string> chunks = {"%", "%4", "%41", "%4G", "%%41", "%0D", "%0d%0a", "%0A", "%0a%0D", "+", " ", "\r", "\n", "\r\n", "\n\r",
                                                  "g", "a", "Z", "0", "-", "~", "\x7f", "\x80", "\xff", "\x01", "%fF", "%Ff", "%2B", "%25", "%00", "&", "=", "/",
                                                  // escapes of other dialects (ECMAScript %uXXXX, \\x, &#, quoted-printable, doubled, overlong UTF-8): all malformed or plain here
                                                  "%u0041", "%u00e9", "%U0041", "%u20AC", "%x41", "%%", "%+1", "%25u0041", "%c3%A9", "%C0%AF", "%e2%82%ac", "=41", "&#65;", "\\x41", "%u004", "%u"};
  std::string s;
  int n = t.range(0, maxLen);
  for (int i = 0; i < n; i++) {
    if (t.chance(3, 4)) s += t.pick(chunks);
    else s += (char)(1 + t.below(255));
  }
  // over-weight truncated triplets at the very end of the buffer
  if (t.chance(1, 4)) { static const std::vector<std::string> tails = {"%", "%4", "%%", "%4%", "%g", "%0D", "\r", "%0D%0A"}; s += t.pick(tails); }
  return s;
}

static Fields gen(Tape &t) {
  Fields f;
  f.set("text", g_text(t));
  f.seti("s2p", t.below(2));
  f.seti("nb", t.below(2));
  f.seti("p2s", t.below(2));
  f.seti("bc", t.below(4));
  // one case in sixteen passes a non-zero value other than URI_TRUE for an escape flag (UriBool is an int); one in sixteen
  // runs with the process locale switched to C.UTF-8 (the character classes of RFC 3986 do not depend on it)
  if (t.chance(1, 16)) { static const int odd[] = {2, -1, 256}; f.seti(t.coin() ? "s2p" : "nb", odd[t.below(3)]); }
  f.seti("locale", t.chance(15, 16) ? 0 : 1);
  return f;
}

// written out: the model must not depend on the process locale (the harness switches it, see "locale" below)
static bool is_unres(unsigned char c) { return (c >= 'a' && c <= 'z') || (c >= 'A' && c <= 'Z') || (c >= '0' && c <= '9') || c == '-' || c == '.' || c == '_' || c == '~'; }

static std::string m_esc(const std::string &s, bool s2p, bool nb) {
  std::string o;
  static const char H[] = "0123456789ABCDEF";
  for (size_t i = 0; i < s.size(); i++) {
    unsigned char c = (unsigned char)s[i];
    if (c == ' ') o += s2p ? "+" : "%20";
    else if (is_unres(c)) o += (char)c;
    else if (nb && (c == '\r' || c == '\n')) {
      // CR, LF and CRLF each become one normalised break
      if (c == '\n' && i > 0 && s[i - 1] == '\r') continue;
      o += "%0D%0A";
    } else { o += '%'; o += H[c >> 4]; o += H[c & 15]; }
  }
  return o;
}
// two-phase model of unescaping; *rawBreaks is set when the input contains unencoded CR/LF
static std::string m_unesc(const std::string &s, bool p2s, int bc, bool *rawBreaks) {
  struct It { unsigned char c; bool enc; };
  std::vector<It> items;
  for (size_t i = 0; i < s.size(); i++) {
    if (s[i] == '%' && i + 2 < s.size() + 0 && m_hexval(s[i + 1]) >= 0 && m_hexval(s[i + 2]) >= 0) {
      items.push_back({(unsigned char)(m_hexval(s[i + 1]) * 16 + m_hexval(s[i + 2])), true});
      i += 2;
    } else if (s[i] == '+' && p2s) items.push_back({' ', false});
    else {
      if (s[i] == '\r' || s[i] == '\n') *rawBreaks = true;
      items.push_back({(unsigned char)s[i], false});
    }
  }
  std::string o;
  for (size_t i = 0; i < items.size(); i++) {
    bool brk = items[i].enc && (items[i].c == 13 || items[i].c == 10);
    if (!brk || bc == URI_BR_DONT_TOUCH) { o += (char)items[i].c; continue; }
    if (items[i].c == 13 && i + 1 < items.size() && items[i + 1].enc && items[i + 1].c == 10) i++;  // CRLF is one break
    switch (bc) {
      case URI_BR_TO_LF: o += '\n'; break;
      case URI_BR_TO_CRLF: o += "\r\n"; break;
      default: o += '\r';
    }
  }
  return o;
}
static std::string breaks_to_crlf(const std::string &s) {
  std::string o;
  for (size_t i = 0; i < s.size(); i++) {
    if (s[i] == '\r') { o += "\r\n"; if (i + 1 < s.size() && s[i + 1] == '\n') i++; }
    else if (s[i] == '\n') o += "\r\n";
    else o += s[i];
  }
  return o;
}

static GuardBuf &gout() { static GuardBuf g(64); return g; }
static GuardBuf &gin() { static GuardBuf g(16); return g; }

template <class A> static Verdict check_type(const std::string &text, bool s2p, bool nb, bool p2s, int bc) {
  using Ch = typename A::Ch;
  std::basic_string<Ch> in = widen<Ch>(text);
  size_t n = in.size();
  // ---- escape, both entry points, output buffer of exactly 3n+1 / 6n+1 characters
  std::string want = m_esc(text, s2p, nb);
  VF_REQUIRE(want.size() <= (nb ? 6 : 3) * n, "ORACLE: model output longer than the documented bound");
  // entries: 0 uriEscape, 1 uriEscapeEx, 2 / 3 uriEscapeEx with both strings in one arena: the output buffer directly
  // behind the unterminated input range (2), the input range directly behind the output buffer (3)
  for (int entry = 0; entry < 4; entry++) {
    size_t cap = (nb ? 6 : 3) * n + 1;
    if (entry >= 2 && (n == 0 || (cap + n) * sizeof(Ch) > gout().capacity())) continue;  // (an empty input range would coincide with the output: refused by design)
    Ch *out = gout().template right_chars<Ch>(cap);
    // input flush right as well (read-only, exact size; terminator only for the NUL-terminated entry)
    Ch *src = gin().template right_chars<Ch>(n + (entry == 0 ? 1 : 0));
    if (entry == 2) { src = gout().template right_chars<Ch>(n + cap); out = src + n; }
    if (entry == 3) { out = gout().template right_chars<Ch>(cap + n); src = out + cap; }
    for (size_t i = 0; i < cap; i++) out[i] = (Ch)0xAA;
    if (n) memcpy(src, in.data(), n * sizeof(Ch));
    if (entry == 0) src[n] = 0;
    if (entry < 2) gin().readonly(true);
    Ch *end = entry == 0 ? A::Escape(src, out, s2p, nb) : A::EscapeEx(src, src + n, out, s2p, nb);
    if (entry < 2) gin().readonly(false);
    if (entry >= 2) VF_REQUIRE(n == 0 || memcmp(src, in.data(), n * sizeof(Ch)) == 0, "%s: escape modified its input (kept next to the output buffer)", A::name());
    stats().sub_evaluations++;
    VF_REQUIRE(end != nullptr, "%s: escape returned NULL", A::name());
    VF_REQUIRE(end >= out && end < out + cap, "%s: returned pointer outside the output buffer", A::name());
    VF_REQUIRE(*end == 0, "%s: returned pointer is not the terminator", A::name());
    std::string got = narrow<Ch>(out, end);
    VF_REQUIRE(narrowable<Ch>(out, end), "%s: escape produced characters above 255", A::name());
    VF_REQUIRE(got == want, "%s: escape('%s',s2p=%d,nb=%d) = '%s', expected '%s'", A::name(), esc(text).c_str(), s2p, nb, esc(got).c_str(), esc(want).c_str());
    for (size_t i = 0; i < got.size(); i++) {
      unsigned char c = (unsigned char)got[i];
      bool ok = is_unres(c) || (c == '+' && s2p) ||
                (c == '%' && i + 2 < got.size() + 0 && isxdigit((unsigned char)got[i + 1]) && !islower((unsigned char)got[i + 1]) &&
                 isxdigit((unsigned char)got[i + 2]) && !islower((unsigned char)got[i + 2]));
      if (c == '%' && ok) { i += 2; continue; }
      VF_REQUIRE(ok, "%s: escape output contains '%c' at %zu", A::name(), c, i);
    }
    VF_REQUIRE(got.size() <= (nb ? 6 : 3) * n, "%s: output longer than %d times the input", A::name(), nb ? 6 : 3);
    // round trip with the matching plus option and DONT_TOUCH
    Ch *rt = gout().template right_chars<Ch>(got.size() + 1);  // same memory, exact size now
    std::basic_string<Ch> esc_w = widen<Ch>(got);
    memcpy(rt, esc_w.c_str(), (got.size() + 1) * sizeof(Ch));
    const Ch *rend = A::UnescapeInPlaceEx(rt, s2p, URI_BR_DONT_TOUCH);
    std::string back = narrow<Ch>(rt, rend);
    std::string expectBack = nb ? breaks_to_crlf(text) : text;
    VF_REQUIRE(back == expectBack, "%s: unescape(escape('%s')) = '%s'", A::name(), esc(text).c_str(), esc(back).c_str());
  }
  // ---- unescape of the arbitrary string itself, in place, buffer of exactly n+1 characters
  {
    bool raw = false;
    std::string wantU = m_unesc(text, p2s, bc, &raw);
    for (int entry = 0; entry < 2; entry++) {
      if (entry == 1 && (p2s || bc != URI_BR_DONT_TOUCH)) continue;  // plain UnescapeInPlace has fixed options
      Ch *buf = gout().template right_chars<Ch>(n + 1);
      if (n) memcpy(buf, in.data(), n * sizeof(Ch));
      buf[n] = 0;
      const Ch *end = entry == 0 ? A::UnescapeInPlaceEx(buf, p2s, (UriBreakConversion)bc) : A::UnescapeInPlace(buf);
      stats().sub_evaluations++;
      VF_REQUIRE(end != nullptr, "%s: unescape returned NULL", A::name());
      VF_REQUIRE(end >= buf && end <= buf + n, "%s: unescape lengthened the string or returned a pointer outside it", A::name());
      VF_REQUIRE(*end == 0, "%s: unescape: returned pointer is not the terminator", A::name());
      std::string got = narrow<Ch>(buf, end);
      if (raw && bc != URI_BR_DONT_TOUCH) {
        // the statement does not say whether unencoded breaks take part in conversion: safety/length clauses only
        stats().relax("raw_breaks_under_converting_mode");
        // still: every character that is neither a break nor part of a triplet must survive in order
        std::string a, b;
        for (char c : got) if (c != '\r' && c != '\n') a += c;
        for (char c : wantU) if (c != '\r' && c != '\n') b += c;
        VF_REQUIRE(a == b, "%s: unescape('%s',p2s=%d,bc=%d): non-break characters differ: '%s' vs '%s'", A::name(), esc(text).c_str(), p2s, bc, esc(got).c_str(), esc(wantU).c_str());
      } else {
        VF_REQUIRE(got == wantU, "%s: unescape('%s',p2s=%d,bc=%d) = '%s', expected '%s'", A::name(), esc(text).c_str(), p2s, bc, esc(got).c_str(), esc(wantU).c_str());
      }
    }
  }
  return Verdict::pass();
}

// a flag value other than 0 / 1: whichever way it is read, the output must be the model's under one reading, fit 6n+1,
// be terminated where the returned pointer says, and unescape back to the input (breaks possibly normalised)
template <class A> static Verdict check_odd(const std::string &text, int s2pRaw, int nbRaw) {
  using Ch = typename A::Ch;
  std::basic_string<Ch> in = widen<Ch>(text);
  size_t n = in.size(), cap = 6 * n + 1;
  Ch *out = gout().template right_chars<Ch>(cap);
  for (size_t i = 0; i < cap; i++) out[i] = (Ch)0xAA;
  Ch *src = gin().template right_chars<Ch>(n);
  if (n) memcpy(src, in.data(), n * sizeof(Ch));
  Ch *end = A::EscapeEx(src, src + n, out, (UriBool)s2pRaw, (UriBool)nbRaw);
  stats().sub_evaluations++;
  VF_REQUIRE(end != nullptr && end >= out && end < out + cap && *end == 0, "%s: flags (%d,%d): returned pointer is not the terminator inside 6n+1 characters", A::name(), s2pRaw, nbRaw);
  VF_REQUIRE(narrowable<Ch>(out, end), "%s: escape produced characters above 255", A::name());
  std::string got = narrow<Ch>(out, end);
  bool matched = false;
  for (int a = 0; a < 2 && !matched; a++) for (int b = 0; b < 2 && !matched; b++) {
    if ((s2pRaw == 0 || s2pRaw == 1) && a != s2pRaw) continue;
    if ((nbRaw == 0 || nbRaw == 1) && b != nbRaw) continue;
    if (got != m_esc(text, a != 0, b != 0)) continue;
    matched = true;
    Ch *rt = gout().template right_chars<Ch>(got.size() + 1);
    std::basic_string<Ch> w = widen<Ch>(got);
    memcpy(rt, w.c_str(), (got.size() + 1) * sizeof(Ch));
    const Ch *rend = A::UnescapeInPlaceEx(rt, a ? URI_TRUE : URI_FALSE, URI_BR_DONT_TOUCH);
    std::string back = narrow<Ch>(rt, rend);
    VF_REQUIRE(back == (b ? breaks_to_crlf(text) : text), "%s: flags (%d,%d): escape/unescape round trip gives '%s'", A::name(), s2pRaw, nbRaw, esc(back).c_str());
  }
  VF_REQUIRE(matched, "%s: flags (%d,%d): escape('%s') = '%s' is the escaping under neither reading of the flag", A::name(), s2pRaw, nbRaw, esc(text).c_str(), esc(got).c_str());
  return Verdict::pass();
}

// wchar_t only: "unescaping any string works in place, never lengthens it, ... leaves malformed '%' sequences untouched".
// Some characters of the text are lifted beyond 255 by adding 0x100 / 0x400 / 0x10000 (values whose low byte is the old
// character: a hex digit behind '%' stays one for code that narrows to a byte). Such a character is no hex digit, no '%',
// no '+' and no line break, so for the model it is an inert placeholder that must come out unchanged and in order.
static Verdict check_wide_high(const std::string &text, bool p2s, int bc, unsigned sel) {
  if (text.empty()) return Verdict::pass();
  char ph = 0;
  for (char c = 0x02; c < 0x20; c++) if (c != '\r' && c != '\n' && text.find(c) == std::string::npos) { ph = c; break; }
  if (!ph) return Verdict::pass();
  std::wstring w;
  std::string modelIn;
  std::vector<wchar_t> lifted;
  static const wchar_t adds[] = {0x100, 0x400, 0x10000, 0x2100};
  unsigned x = sel | 1;
  for (size_t i = 0; i < text.size(); i++) {
    unsigned char c = (unsigned char)text[i];
    x = x * 1103515245u + 12345u;
    bool behindPct = (i >= 1 && text[i - 1] == '%') || (i >= 2 && text[i - 2] == '%');
    bool lift = c != 0 && c != '%' && ((behindPct && ((x >> 16) & 3) != 0) || ((x >> 16) & 15) == 0);
    if (lift) { wchar_t h = (wchar_t)(adds[(x >> 20) & 3] + c); w += h; lifted.push_back(h); modelIn += ph; }
    else { w += (wchar_t)c; modelIn += (char)c; }
  }
  if (lifted.empty()) return Verdict::pass();
  bool raw = false;
  std::string want = m_unesc(modelIn, p2s, bc, &raw);
  if (raw && bc != URI_BR_DONT_TOUCH) return Verdict::pass();  // see above: raw breaks under a converting mode are not judged exactly
  // the placeholder must stand for the lifted characters only: a triplet of the text that decodes to the same byte would be mistaken for one
  { size_t cnt = 0; for (char c : want) if (c == ph) cnt++; if (cnt != lifted.size()) return Verdict::pass(); }
  size_t n = w.size();
  wchar_t *buf = gout().right_chars<wchar_t>(n + 1);
  memcpy(buf, w.c_str(), (n + 1) * sizeof(wchar_t));
  const wchar_t *end = uriUnescapeInPlaceExW(buf, p2s, (UriBreakConversion)bc);
  stats().sub_evaluations++;
  VF_REQUIRE(end != nullptr && end >= buf && end <= buf + n && *end == 0, "W: unescape of a text with characters beyond 255: returned pointer is not the terminator inside the string");
  size_t k = 0;
  bool same = (size_t)(end - buf) == want.size();
  for (size_t i = 0; same && i < want.size(); i++) {
    if (want[i] == ph) { if (k >= lifted.size() || buf[i] != lifted[k++]) same = false; }
    else if (buf[i] != (wchar_t)(unsigned char)want[i]) same = false;
  }
  if (!same) {
    u32s in32, out32;
    for (wchar_t c : w) in32 += (char32_t)c;
    for (const wchar_t *q = buf; q < end; q++) out32 += (char32_t)*q;
    return Verdict::fail("W: unescape('" + esc(in32) + "',p2s=" + std::to_string(p2s) + ",bc=" + std::to_string(bc) + ") = '" + esc(out32) + "': characters beyond 255 are no hex digits, '%' behind them is malformed and stays");
  }
  stats().hit("wide_unescape_with_characters_beyond_255");
  return Verdict::pass();
}

static Verdict check_one(const std::string &text, bool s2p, bool nb, bool p2s, int bc) {
  if (text.find('\0') != std::string::npos) return Verdict::discard();
  Verdict v = check_type<Api<char>>(text, s2p, nb, p2s, bc);
  if (v.kind != Verdict::PASS) return v;
  v = check_type<Api<wchar_t>>(text, s2p, nb, p2s, bc);
  if (v.kind != Verdict::PASS) return v;
  return check_wide_high(text, p2s, bc, (unsigned)fnv64(text));
}

static void classify_text(const std::string &text) {
  Stats &S = stats();
  bool needs = false, wf = false, mal = false, brk = false;
  for (size_t i = 0; i < text.size(); i++) {
    unsigned char c = (unsigned char)text[i];
    if (!is_unres(c)) needs = true;
    if (c == '\r' || c == '\n') brk = true;
    if (c == '%') { if (i + 2 < text.size() + 0 && m_hexval(text[i + 1]) >= 0 && m_hexval(text[i + 2]) >= 0) wf = true; else mal = true; }
  }
  if (needs) S.hit("has_char_to_escape");
  if (wf) S.hit("has_wellformed_triplet");
  if (mal) S.hit("has_malformed_percent");
  if (brk) S.hit("has_raw_break");
  if ((needs || wf || mal) && text.size() >= 2) S.nontrivial(text, esc(text));
}

static Verdict check(const Fields &f) {
  std::string text = f.get("text");
  int s2pRaw = (int)f.geti("s2p"), nbRaw = (int)f.geti("nb");
  struct Loc { bool on; Loc(bool o) : on(o) { if (on && !setlocale(LC_ALL, "C.UTF-8")) on = false; } ~Loc() { if (on) setlocale(LC_ALL, "C"); } } loc(f.geti("locale") != 0);
  if (loc.on) stats().hit("locale=C.UTF-8");
  Verdict v;
  if ((s2pRaw != 0 && s2pRaw != 1) || (nbRaw != 0 && nbRaw != 1)) {
    if (text.find('\0') != std::string::npos) return Verdict::discard();
    stats().relax("non_canonical_boolean_flag:reading_independent_clauses_only");
    v = check_odd<Api<char>>(text, s2pRaw, nbRaw);
    if (v.kind == Verdict::PASS) v = check_odd<Api<wchar_t>>(text, s2pRaw, nbRaw);
  } else v = check_one(text, s2pRaw != 0, nbRaw != 0, f.geti("p2s"), (int)f.geti("bc"));
  if (v.kind != Verdict::PASS) return v;
  classify_text(text);
  return v;
}

static Verdict enumerate(int tier, int shard, int nshards, Fields *failing) {
  static const char alpha[] = {'%', '4', '1', 'a', 'A', 'g', '+', ' ', '\r', '\n', (char)0xff, 'D', '0'};
  const int K = sizeof alpha;
  int maxLen = tier ? 6 : 5;
  uint64_t idx = 0;
  for (int len = 0; len <= maxLen; len++) {
    uint64_t total = 1;
    for (int i = 0; i < len; i++) total *= K;
    for (uint64_t v = 0; v < total; v++, idx++) {
      if ((int)(idx % (uint64_t)nshards) != shard) continue;
      std::string s;
      uint64_t x = v;
      for (int i = 0; i < len; i++) { s += alpha[x % K]; x /= K; }
      for (int fl = 0; fl < 8; fl++) {
        // all 2x2 escape flags and all 2x4 unescape flags are covered by the 8 combinations below
        { Fields c; c.set("text", s); c.seti("s2p", fl & 1); c.seti("nb", (fl >> 1) & 1); c.seti("p2s", (fl >> 2) & 1); c.seti("bc", fl % 4); note_case(c); }
        Verdict r = check_one(s, fl & 1, (fl >> 1) & 1, (fl >> 2) & 1, fl % 4);
        stats().evaluations++;
        if (r.kind == Verdict::FAIL) { failing->set("text", s); failing->seti("s2p", fl & 1); failing->seti("nb", (fl >> 1) & 1); failing->seti("p2s", (fl >> 2) & 1); failing->seti("bc", fl % 4); return r; }
      }
      classify_text(s);
    }
  }
  return Verdict::pass();
}

static Fields from_bytes(const uint8_t *d, size_t n) {
  Fields f;
  unsigned fl = n ? d[0] : 0;
  std::string t;
  for (size_t i = 1; i < n && i < 300; i++) if (d[i]) t += (char)d[i];
  f.set("text", t);
  f.seti("s2p", fl & 1); f.seti("nb", (fl >> 1) & 1); f.seti("p2s", (fl >> 2) & 1); f.seti("bc", (fl >> 3) & 3);
  return f;
}

const Harness vf::HARNESS = {"C16", gen, check, enumerate, nullptr, from_bytes};
