// C01  Parser accepts exactly the RFC 3986 URI-reference language.
// Oracle: M_nfa (Appendix A as an automaton). rc == 0 iff accepted; on rejection
// URI_ERROR_SYNTAX, non-NULL error position inside the input, equal to first+L
// (L = first character after which no completion exists, |s| if incomplete),
// with the latitude the statement grants inside a bracketed IP literal.
#include "gen.hpp"
#include "parse_common.hpp"

using namespace vf;

static Fields gen(Tape &t) {
  Fields f;
  LongMode lm(t);
  if (lm.on()) f.seti("long", 1);
  int arm = 0;
  u32s s = g_noise(t, /*wideExtras=*/true, &arm);
  f.set32("text", s);
  f.seti("arm", arm);
  f.seti("locale", t.chance(15, 16) ? 0 : 1);  // one case in 16 runs under C.UTF-8
  return f;
}

struct Lit { bool inside = false; size_t b = 0, e = 0; };
// The exemption of the statement: "only when that character [the one at L] lies inside a bracketed IP literal may the
// position point elsewhere within the same literal". A literal begins at '[' and extends over the characters an IP literal
// can consist of (unreserved, sub-delims, ':') up to and including its ']'; a literal that is never closed ends where
// that run ends ('/', '?', '#', '@', '%', '[', a character beyond ASCII ... cannot be inside one). The character at L is
// inside the literal if it belongs to that stretch - or is the very character that ends an unclosed one, which is where
// the literal turns out to be broken.
static bool literal_char(char32_t c) {
  if (c >= 0x80) return false;
  if ((c >= 'a' && c <= 'z') || (c >= 'A' && c <= 'Z') || (c >= '0' && c <= '9')) return true;
  return c != 0 && strchr("-._~!$&'()*+,;=:", (int)c) != nullptr;
}
static Lit literal_latitude(const u32s &s, size_t L) {
  Lit l;
  size_t b = 0;
  bool found = false;
  for (size_t i = L; i-- > 0;) {
    if (s[i] == ']') return l;
    if (s[i] == '[') { found = true; b = i; break; }
  }
  if (!found) return l;
  size_t e = b + 1;
  while (e < s.size() && literal_char(s[e])) e++;
  // e: the closing bracket, or the first character that cannot be part of a literal, or the end of the text
  if (L > e) return l;  // the literal was over before L
  l.inside = true; l.b = b; l.e = e < s.size() ? e : s.size();
  return l;
}

template <class A> static Verdict check_type(const u32s &cps, const Matcher::Res &res, const Lit &lit) {
  using Ch = typename A::Ch;
  std::basic_string<Ch> s = widen32<Ch>(cps);
  bool nul = has_nul(cps);
  LedgerMM mm;
  for (int e = 0; e < PE_COUNT; e++) {
    if (entry_needs_z(e) && nul) continue;
    Parsed<A> p;
    parse_via<A>(p, e, s, &mm);
    stats().sub_evaluations++;
    const char *en = entry_name(e);
    if (res.accepted) {
      VF_REQUIRE(p.rc == 0, "%s/%s: grammar accepts but rc=%d", A::name(), en, p.rc);
    } else {
      VF_REQUIRE(p.rc == URI_ERROR_SYNTAX, "%s/%s: grammar rejects (L=%zu) but rc=%d", A::name(), en, res.L, p.rc);
      if (e == PE_STATE_EX || e == PE_STATE_Z)
        VF_REQUIRE(p.stateCode == URI_ERROR_SYNTAX, "%s/%s: state.errorCode=%d", A::name(), en, p.stateCode);
      if (!entry_reports_errorpos(e)) { p.release(); continue; }
      VF_REQUIRE(p.errorPos != nullptr, "%s/%s: NULL error position", A::name(), en);
      VF_REQUIRE(p.errorPos >= p.first() && p.errorPos <= p.afterLast(), "%s/%s: error position outside the input (%td)",
                 A::name(), en, p.errorPos - p.first());
      size_t pos = (size_t)(p.errorPos - p.first());
      if (pos != res.L) {
        bool ok = lit.inside && pos >= lit.b && pos <= lit.e;
        VF_REQUIRE(ok, "%s/%s: error position %zu, expected %zu%s", A::name(), en, pos, res.L,
                   lit.inside ? " (outside the literal too)" : "");
        stats().relax("errorpos_elsewhere_in_literal");
      }
    }
    p.release();
    if (e == PE_SINGLE_MM) {
      VF_REQUIRE(mm.bad_free == 0, "%s/%s: %s", A::name(), en, mm.bad_free_what.c_str());
      VF_REQUIRE(mm.outstanding() == 0, "%s/%s: %zu blocks outstanding after release", A::name(), en, mm.outstanding());
    }
  }
  // with the k-th allocation failing the answer is the out-of-memory code or the fault-free answer, never the opposite verdict
  for (int k = 1; k <= 16; k++) {
    Parsed<A> p;
    mm.reset_counts(); mm.reset_plan(); mm.fail_at = (uint64_t)k;
    parse_via<A>(p, PE_SINGLE_MM, s, &mm);
    bool bit = mm.failed > 0;
    mm.reset_plan();
    stats().sub_evaluations++;
    if (!bit) break;
    if (res.accepted) VF_REQUIRE(p.rc == 0 || p.rc == URI_ERROR_MALLOC, "%s: allocation %d fails on a grammar-valid text: rc=%d (neither success nor the out-of-memory code)", A::name(), k, p.rc);
    else VF_REQUIRE(p.rc == URI_ERROR_SYNTAX || p.rc == URI_ERROR_MALLOC, "%s: allocation %d fails on an invalid text: rc=%d", A::name(), k, p.rc);
  }
  return Verdict::pass();
}

static Verdict check_text(const u32s &cps) {
  Matcher::Res res = uriref_matcher().run(cps);
  Lit lit = res.accepted ? Lit() : literal_latitude(cps, res.L);
  Verdict v = check_type<Api<wchar_t>>(cps, res, lit);
  if (v.kind != Verdict::PASS) return v;
  bool narrowOk = all_narrow(cps);
  if (narrowOk) {
    v = check_type<Api<char>>(cps, res, lit);
    if (v.kind != Verdict::PASS) return v;
  }
  // classification
  Stats &S = stats();
  S.hit(narrowOk ? "chartypes=both" : "chartypes=wide_only");
  bool nontrivial;
  if (res.accepted) {
    std::string t;
    for (char32_t c : cps) t += (char)c;
    MUri m = m_split(t);
    int comps = m.hasScheme + m.hasAuth + (!m.path.empty()) + m.hasQuery + m.hasFrag + (m.hasAuth && m.hasUser) + (m.hasAuth && m.hasPort);
    S.hit("accepted");
    static const char *hk[] = {"host=none", "host=regname", "host=ipv4", "host=ipv6", "host=ipvfuture"};
    S.hit(hk[m.hostKind]);
    nontrivial = comps >= 2;
  } else {
    if (lit.inside) S.hit("rejected_in_literal");
    else if (res.L == cps.size()) S.hit("rejected_incomplete");
    else S.hit("rejected_midstring");
    nontrivial = res.L >= 1;
  }
  if (nontrivial) { std::string k = esc(cps); S.nontrivial(k, k); }
  return Verdict::pass();
}

static Verdict check(const Fields &f) {
  stats().hit("arm=" + std::to_string(f.geti("arm", -1)));
  LocaleArm loc(f.geti("locale") != 0);
  return check_text(f.get32("text"));
}

// Exhaustive: every string up to length L over class representatives, and every
// literal body up to length M after "//[".
static Verdict enumerate(int tier, int shard, int nshards, Fields *failing) {
  static const char32_t alpha[] = {'a', 'f', 'g', 'v', '0', '1', '2', '5', '6', '9', ':', '/', '?', '#', '[', ']', '@', '%', '.', '-', '!', ' ', 0x80};
  const int K = 23;
  int maxLen = tier ? 5 : 4;
  uint64_t idx = 0;
  for (int len = 0; len <= maxLen; len++) {
    uint64_t total = 1;
    for (int i = 0; i < len; i++) total *= K;
    for (uint64_t v = 0; v < total; v++, idx++) {
      if ((int)(idx % (uint64_t)nshards) != shard) continue;
      u32s s;
      uint64_t x = v;
      for (int i = 0; i < len; i++) { s += alpha[x % K]; x /= K; }
      { Fields c; c.set32("text", s); c.seti("arm", 90); note_case(c); }
      Verdict r = check_text(s);
      stats().evaluations++;
      if (r.kind == Verdict::FAIL) { failing->set32("text", s); failing->seti("arm", 90); return r; }
    }
  }
  stats().hit("enum_strings_upto_len", (uint64_t)maxLen);
  static const char32_t lalpha[] = {'1', 'f', '0', ':', '.', ']', 'g'};
  const int LK = 7;
  int maxBody = tier ? 8 : 6;
  for (int len = 0; len <= maxBody; len++) {
    uint64_t total = 1;
    for (int i = 0; i < len; i++) total *= LK;
    for (uint64_t v = 0; v < total; v++, idx++) {
      if ((int)(idx % (uint64_t)nshards) != shard) continue;
      u32s s = U"//[";
      uint64_t x = v;
      for (int i = 0; i < len; i++) { s += lalpha[x % LK]; x /= LK; }
      { Fields c; c.set32("text", s); c.seti("arm", 91); note_case(c); }
      Verdict r = check_text(s);
      stats().evaluations++;
      if (r.kind == Verdict::FAIL) { failing->set32("text", s); failing->seti("arm", 91); return r; }
    }
  }
  stats().hit("enum_literal_bodies_upto_len", (uint64_t)maxBody);
  return Verdict::pass();
}

// Oracle self-check: RFC examples, section 5.4 references, and the IPv6 sub-automaton
// against inet_pton on generated literals.
#include <arpa/inet.h>
static std::string selftest() {
  static const char *good[] = {"ftp://ftp.is.co.za/rfc/rfc1808.txt", "http://www.ietf.org/rfc/rfc2396.txt",
                               "ldap://[2001:db8::7]/c=GB?objectClass?one", "mailto:John.Doe@example.com",
                               "news:comp.infosystems.www.servers.unix", "tel:+1-816-555-1212", "telnet://192.0.2.16:80/",
                               "urn:oasis:names:specification:docbook:dtd:xml:4.1.2", "g:h", "g", "./g", "g/", "/g", "//g", "?y",
                               "g?y", "#s", "g#s", "g?y#s", ";x", "g;x", "g;x?y#s", "", ".", "./", "..", "../", "../g", "../..",
                               "../../", "../../g", "../../../g", "/./g", "/../g", "g.", ".g", "g..", "..g", "./../g", "./g/.",
                               "g/./h", "g/../h", "g;x=1/./y", "g;x=1/../y", "g?y/./x", "g?y/../x", "g#s/./x", "g#s/../x", "http:g",
                               "//[v1.a]", "//[::]", "//[::1.2.3.4]", "//[1:2:3:4:5:6:7:8]", "//[1:2:3:4:5:6:1.2.3.4]", "//@:", "//:"};
  static const char *bad[] = {"1:", ":", "[", "//[", "//[]", "//[::1", "//[1:2:3:4:5:6:7:8:9]", "//[v.a]", "//[vG.a]", "a b", "%",
                              "%4", "%4g", "a#b#c", "//[::1]x", "//h:8a", "//[1::2::3]", "//[12345::]", "//[1.2.3.4]", "\x80", "a\\b"};
  Matcher &m = uriref_matcher();
  for (auto g : good) if (!m.matches(g)) return std::string("grammar rejects good example '") + g + "'";
  for (auto b : bad) if (m.matches(b)) return std::string("grammar accepts bad example '") + b + "'";
  // IPv6 sub-automaton vs inet_pton (which implements RFC 4291 text form; RFC 3986's IPv6address is the same language)
  std::vector<uint16_t> tapev(4000);
  uint64_t x = 0x9E3779B97F4A7C15ull;
  int agree = 0, valid = 0;
  for (int i = 0; i < 3000; i++) {
    for (auto &w : tapev) { x ^= x << 13; x ^= x >> 7; x ^= x << 17; w = (uint16_t)x; }
    Tape t(tapev.data(), tapev.size());
    std::string lit = (i % 3 == 0) ? g_ipv6_valid(t) : g_ip6_body(t);
    unsigned char out[16], mine[16];
    bool sys = inet_pton(AF_INET6, lit.c_str(), out) == 1;
    bool me = ipv6_matcher().matches(lit);
    if (sys != me) return "IPv6 automaton disagrees with inet_pton on '" + lit + "'";
    if (me) {
      valid++;
      if (!ipv6_bytes(lit, mine) || memcmp(mine, out, 16) != 0) return "IPv6 value model disagrees with inet_pton on '" + lit + "'";
    }
    agree++;
  }
  if (valid < 500) return "IPv6 self-check generated too few valid literals";
  return "";
}

static Fields from_bytes(const uint8_t *d, size_t n) {
  Fields f;
  u32s s;
  for (size_t i = 0; i < n && i < 400; i++) s += (char32_t)d[i];
  f.set32("text", s);
  f.seti("arm", 99);
  return f;
}

const Harness vf::HARNESS = {"C01", gen, check, enumerate, selftest, from_bytes};
