// C19  The char and wchar_t APIs behave identically.
// Differential oracle: one generated history (URI operations plus escape,
// unescape, query, filename and recomposition-with-capacity steps) is executed
// through Api<char> and through Api<wchar_t> (inputs widened); the two transcripts
// (codes, narrowed texts, component snapshots, error offsets, counts, required
// sizes, chars written) must be identical. All wide buffers are exact-size heap
// blocks counted in characters, so a byte/character mix-up is an ASan report or a
// transcript difference.
#include "hist.hpp"

using namespace vf;

static std::string g_smalltext(Tape &t) {
  static const std::vector<std::string> chunks = {"a", "B", "%41", "%", "%4", "+", " ", "\r\n", "\n", "&", "=", "/", ":", "\\", "\x80", "\xff", "%0D%0A", "z", "%C3%A9", "%c3%a9", "%E2%82%AC", "%C0%AF", "%u00e9"};  // incl. percent-encoded UTF-8 (stays bytes in both character types)
  std::string s;
  // one text in eight starts with a prefix that software special-cases (literals compared by sizeof / memcmp / strlen are
  // where byte counts and character counts get mixed up)
  if (t.chance(1, 8)) {
    static const std::vector<std::string> pre = {"\\\\?\\C:\\", "\\\\?\\UNC\\", "\\\\localhost\\", "\\\\.\\", "file://localhost/", "file://locations/", "file:///C:/", "file:/", "C:\\", "/", "localhost", "http://"};
    s = t.pick(pre);
  }
  int n = t.range(0, 8);
  for (int i = 0; i < n; i++) s += t.pick(chunks);
  return s;
}
static Fields gen(Tape &t) {
  Fields f;
  std::vector<Op> ops = g_history(t, SEG_ANY, true, 6);
  int extra = t.range(1, 5);
  for (int i = 0; i < extra; i++) {
    Op o;
    switch (t.below(6)) {
      case 0: o.kind = 'X'; o.text = g_smalltext(t); o.arg = (int)t.below(4); break;                       // escape
      case 1: o.kind = 'U'; o.text = g_smalltext(t); o.arg = (int)t.below(8); break;                       // unescape
      case 2: o.kind = 'Q'; o.text = g_smalltext(t); o.arg = (int)t.below(32);                            // dissect + compose
        if (t.chance(1, 10)) { static const int lens[] = {1023, 1024, 1025, 2047, 2048, 2049, 2500, 4095, 4096, 4097}; o.text = "a=1&" + std::string((size_t)lens[t.below(10)], 'k') + (t.coin() ? "=v+%41" : ""); }  // sizes in characters vs bytes around stack-buffer / fast-path thresholds
        break;
      case 3: o.kind = 'F'; o.text = g_smalltext(t); o.arg = (int)t.below(4); break;                       // filename conversions
      case 4: o.kind = 'T'; o.i = (int)t.below(8); o.arg = (int)t.below(40); break;                        // toString with capacity
      default: { o.kind = 'P'; u32s n = g_noise(t, false); for (char32_t c : n) if (c >= 1 && c <= 255) o.text += (char)c; }  // possibly invalid parse (error offset)
    }
    ops.insert(ops.begin() + 1 + t.below((uint32_t)ops.size()), o);
  }
  // extended ops are serialised with the generic encoder: kind:text-escaped:arg
  f.seti("n", (long long)ops.size());
  for (size_t k = 0; k < ops.size(); k++) {
    const Op &o = ops[k];
    if (strchr("XUQF", o.kind)) f.kv.emplace_back("op." + std::to_string(k), std::string(1, o.kind) + ":" + std::to_string(o.arg) + ":" + esc(o.text));
    else if (o.kind == 'T') f.kv.emplace_back("op." + std::to_string(k), "T:" + std::to_string(o.i) + ":" + std::to_string(o.arg));
    else f.kv.emplace_back("op." + std::to_string(k), o.str());
  }
  // in a quarter of the transcripts the k-th allocation of every other step fails once, identically for both APIs: error
  // handling paths must agree between the character types as well
  f.seti("fault", t.chance(3, 4) ? 0 : t.range(1, 8));
  return f;
}
static std::vector<Op> decode(const Fields &f) {
  std::vector<Op> ops;
  long long n = f.geti("n");
  for (long long k = 0; k < n; k++) {
    const std::string *v = f.find("op." + std::to_string(k));
    if (!v || v->empty()) continue;
    char c = (*v)[0];
    if (strchr("XUQF", c)) {
      Op o; o.kind = c;
      size_t p = v->find(':', 2);
      o.arg = atoi(v->substr(2, p - 2).c_str());
      o.text = unesc8(v->substr(p + 1));
      ops.push_back(o);
    } else if (c == 'T') {
      Op o; o.kind = 'T';
      size_t p = v->find(':', 2);
      o.i = atoi(v->substr(2, p - 2).c_str());
      o.arg = atoi(v->substr(p + 1).c_str());
      ops.push_back(o);
    } else ops.push_back(Op::parse(*v));
  }
  return ops;
}

template <class A> static std::vector<std::string> transcript(const std::vector<Op> &ops, std::map<std::string, int> *groups, int fault) {
  using Ch = typename A::Ch;
  std::vector<std::string> tr;
  World<A> w;
  auto obj_record = [&](int k) {
    std::string t, wf = wellformed<A>(w.at(k).uri);
    bool nok = true;
    bool ok = to_string<A>(w.at(k).uri, &t, &nok);
    Snap s = snapshot<A>(w.at(k).uri);
    return std::string(ok ? "text='" : "notext'") + esc(t) + "' narrow=" + (nok && s.narrowOk ? "1" : "0") + " wf='" + wf + "' " + s.describe() + " owner=" + (s.owner ? "1" : "0");
  };
  LibcLedger &L = libc_ledger();
  struct PlanOff { LibcLedger &L; ~PlanOff() { L.fail_at = 0; } } planOff{L};
  for (auto &op : ops) {
    std::string rec = std::string(1, op.kind) + ": ";
    L.fail_at = 0;
    // every other step from the third on (the two leading parses set the scene)
    size_t stepIndex = tr.size();
    bool planned = fault > 0 && stepIndex >= 2 && ((stepIndex + (size_t)fault) % 2 == 0);
    if (planned) { L.req = 0; L.fail_at = (uint64_t)fault; }
    int n = w.size();
    auto ix = [&](int v) { return n ? ((v % n) + n) % n : 0; };
    switch (op.kind) {
      case 'P': {
        (*groups)["parse"]++;
        // error offset is part of the transcript
        std::basic_string<Ch> s = widen<Ch>(op.text);
        std::unique_ptr<Ch[]> z(new Ch[s.size() + 1]);
        memcpy(z.get(), s.c_str(), (s.size() + 1) * sizeof(Ch));
        typename A::Uri u;
        const Ch *ep = nullptr;
        int rc = A::ParseSingleUri(&u, z.get(), &ep);
        rec += "rc=" + std::to_string(rc) + " err=" + (rc == URI_ERROR_SYNTAX && ep ? std::to_string(ep - z.get()) : "-");
        A::FreeUriMembers(&u);
        typename World<A>::Res r = w.exec(op);
        rec += " | rc=" + std::to_string(r.rc) + (r.produced >= 0 ? " " + obj_record(r.produced) : "");
        break;
      }
      case 'R': case 'B': case 'N': case 'O': case 'W': case 'D': {
        (*groups)[op.kind == 'R' ? "resolve" : op.kind == 'B' ? "create_reference" : op.kind == 'N' ? "normalize" : op.kind == 'W' ? "parse" : op.kind == 'D' ? "free" : "make_owner"]++;
        typename World<A>::Res r = w.exec(op);
        rec += r.skipped ? "skipped" : "rc=" + std::to_string(r.rc) + (r.produced >= 0 ? " " + obj_record(r.produced) : "");
        if (r.produced >= 0) (*groups)["recompose"]++;
        break;
      }
      case 'S': if (n && w.at(ix(op.i)).valid) { (*groups)["recompose"]++; rec += obj_record(ix(op.i)); } break;
      case 'E': if (n && w.at(ix(op.i)).valid && w.at(ix(op.j)).valid) { (*groups)["compare"]++; rec += std::to_string(A::EqualsUri(&w.at(ix(op.i)).uri, &w.at(ix(op.j)).uri)); } break;
      case 'M': if (n && w.at(ix(op.i)).valid) { (*groups)["normalize"]++; unsigned m = 99; int rc = A::NormalizeSyntaxMaskRequiredEx(&w.at(ix(op.i)).uri, &m); rec += std::to_string(rc) + " mask=" + std::to_string(m) + "/" + std::to_string(A::NormalizeSyntaxMaskRequired(&w.at(ix(op.i)).uri)); } break;
      case 'T': if (n && w.at(ix(op.i)).valid) {
        (*groups)["recompose"]++;
        int need = -1, cw = -7;
        int rc1 = A::ToStringCharsRequired(&w.at(ix(op.i)).uri, &need);
        int cap = op.arg;
        std::unique_ptr<Ch[]> d(new Ch[cap > 0 ? cap : 1]);
        memset(d.get(), 0xA5, (size_t)(cap > 0 ? cap : 1) * sizeof(Ch));
        d[0] = (Ch)'#';
        int rc2 = A::ToString(d.get(), &w.at(ix(op.i)).uri, cap, &cw);
        std::string txt;
        if (rc2 == 0) { txt = narrow<Ch>(d.get(), d.get() + (cw > 0 ? cw - 1 : 0)); if (!narrowable<Ch>(d.get(), d.get() + (cw > 0 ? cw - 1 : 0))) txt += "<characters beyond 255>"; }
        rec += "need=" + std::to_string(rc1) + "/" + std::to_string(need) + " cap=" + std::to_string(cap) + " rc=" + std::to_string(rc2) + " cw=" + std::to_string(cw) + " '" + esc(txt) + "'" +
               (rc2 != 0 && cap >= 1 ? std::string(" first=") + std::to_string((int)(d[0] & 0xff)) + " left='" + esc(narrow<Ch>(d.get(), d.get() + cap)) + "' whole=" + (narrowable<Ch>(d.get() + 1, d.get() + cap) ? "1" : "0") : "");  // what a refused call leaves in the buffer, character by character
      } break;
      case 'X': {
        (*groups)["escape"]++;
        bool s2p = op.arg & 1, nb = op.arg & 2;
        std::basic_string<Ch> s = widen<Ch>(op.text);
        size_t cap = (nb ? 6 : 3) * s.size() + 1;
        std::unique_ptr<Ch[]> in(new Ch[s.size()]), out(new Ch[cap]);
        if (!s.empty()) memcpy(in.get(), s.data(), s.size() * sizeof(Ch));
        Ch *e = A::EscapeEx(in.get(), in.get() + s.size(), out.get(), s2p, nb);
        rec += "len=" + std::to_string(e - out.get()) + " '" + esc(narrow<Ch>(out.get(), e)) + "' narrow=" + (narrowable<Ch>(out.get(), e) ? "1" : "0");
        break;
      }
      case 'U': {
        (*groups)["escape"]++;
        std::basic_string<Ch> s = widen<Ch>(op.text);
        std::unique_ptr<Ch[]> io(new Ch[s.size() + 1]);
        memcpy(io.get(), s.c_str(), (s.size() + 1) * sizeof(Ch));
        const Ch *e = A::UnescapeInPlaceEx(io.get(), op.arg & 1, (UriBreakConversion)((op.arg >> 1) & 3));
        rec += "len=" + std::to_string(e - io.get()) + " '" + esc(narrow<Ch>(io.get(), e)) + "'";
        break;
      }
      case 'Q': {
        (*groups)["query"]++;
        std::basic_string<Ch> s = widen<Ch>(op.text);
        std::unique_ptr<Ch[]> in(new Ch[s.size()]);
        if (!s.empty()) memcpy(in.get(), s.data(), s.size() * sizeof(Ch));
        typename A::QL *ql = nullptr;
        int cnt = -3;
        bool p2s = op.arg & 1, s2p = op.arg & 2, nb = op.arg & 4;
        int rc = A::DissectQueryMallocEx(&ql, &cnt, in.get(), in.get() + s.size(), p2s, (UriBreakConversion)((op.arg >> 3) & 3));
        if (rc != 0) ql = nullptr;  // after a failure the output pointer is not meaningful (the library has released the list)
        rec += "rc=" + std::to_string(rc) + " count=" + std::to_string(cnt) + " [";
        for (auto *q = ql; q; q = q->next) {
          size_t kl = 0; while (q->key[kl]) kl++;
          rec += "'" + esc(narrow<Ch>(q->key, q->key + kl)) + "'";
          if (q->value) { size_t vl = 0; while (q->value[vl]) vl++; rec += "='" + esc(narrow<Ch>(q->value, q->value + vl)) + "'"; }
          rec += ",";
        }
        rec += "]";
        if (ql) {
          int need = -1, cw = -7;
          int rc1 = A::ComposeQueryCharsRequiredEx(ql, &need, s2p, nb);
          rec += " need=" + std::to_string(rc1) + "/" + std::to_string(need);
          if (rc1 == 0 && need >= 0 && need < 100000) {
            for (int cap : {need + 1, need / 2, 1}) {
              std::unique_ptr<Ch[]> d(new Ch[cap > 0 ? cap : 1]);
              int rc2 = A::ComposeQueryEx(d.get(), ql, cap, &cw, s2p, nb);
              rec += " cap=" + std::to_string(cap) + " rc=" + std::to_string(rc2) + (rc2 == 0 ? " cw=" + std::to_string(cw) + " '" + esc(narrow<Ch>(d.get(), d.get() + cw - 1)) + "'" : "");
            }
            Ch *ms = nullptr;
            int rc3 = A::ComposeQueryMallocEx(&ms, ql, s2p, nb);
            if (rc3 == 0) { size_t l = 0; while (ms[l]) l++; rec += " malloc='" + esc(narrow<Ch>(ms, ms + l)) + "'"; free(ms); }
            else rec += " malloc rc=" + std::to_string(rc3);
          }
          A::FreeQueryList(ql);
        }
        break;
      }
      case 'F': {
        (*groups)["filename"]++;
        if (op.text.find('\0') != std::string::npos) break;
        std::basic_string<Ch> s = widen<Ch>(op.text);
        bool unix_ = op.arg & 1, toUri = op.arg & 2;
        if (toUri) {
          std::unique_ptr<Ch[]> out(new Ch[8 + 3 * s.size() + 1]);
          int rc = unix_ ? A::UnixFilenameToUriString(s.c_str(), out.get()) : A::WindowsFilenameToUriString(s.c_str(), out.get());
          size_t l = 0; while (out[l]) l++;
          rec += "rc=" + std::to_string(rc) + " '" + esc(narrow<Ch>(out.get(), out.get() + l)) + "'";
        } else {
          std::unique_ptr<Ch[]> out(new Ch[s.size() + 3]);
          int rc = unix_ ? A::UriStringToUnixFilename(s.c_str(), out.get()) : A::UriStringToWindowsFilename(s.c_str(), out.get());
          size_t l = 0; while (out[l]) l++;
          rec += "rc=" + std::to_string(rc) + " '" + esc(narrow<Ch>(out.get(), out.get() + l)) + "'";
        }
        break;
      }
      default: break;
    }
    if (planned && L.req >= (uint64_t)fault) { rec += " [allocation " + std::to_string(fault) + " failed]"; (*groups)["steps_with_failed_allocation"]++; }
    L.fail_at = 0;
    tr.push_back(rec);
    stats().sub_evaluations++;
  }
  return tr;
}

static Verdict check(const Fields &f) {
  std::vector<Op> ops = decode(f);
  for (auto &op : ops) if (op.text.find('\0') != std::string::npos) return Verdict::discard();
  std::map<std::string, int> ga, gw;
  int fault = (int)f.geti("fault");
  std::vector<std::string> a = transcript<Api<char>>(ops, &ga, fault);
  std::vector<std::string> b = transcript<Api<wchar_t>>(ops, &gw, fault);
  if (a.size() != b.size()) return Verdict::fail("transcripts have different lengths");
  size_t longest = 0;
  for (size_t k = 0; k < a.size(); k++) {
    if (a[k] != b[k]) return Verdict::fail("step " + std::to_string(k) + " differs between the char and the wchar_t API:\n#   A " + a[k] + "\n#   W " + b[k]);
    size_t q = a[k].find("text='");
    if (q != std::string::npos) { size_t e = a[k].find('\'', q + 6); if (e != std::string::npos) longest = std::max(longest, e - q - 6); }
  }
  Stats &S = stats();
  for (auto &g : ga) S.hit("group=" + g.first);
  S.hit("transcripts");
  if (ops.size() >= 3 && longest >= 8) S.nontrivial(f.text(), f.text().substr(0, 500));
  return Verdict::pass();
}

const Harness vf::HARNESS = {"C19", gen, check, nullptr, nullptr};
