// C10  Reference creation is the inverse of reference resolution.
// Oracle: round trip D = RemoveBase(S, B, mode); T = AddBase(D, B) must equal S
// after dot-segment normalisation (empty path under an authority read as "/"),
// plus the shape clauses (scheme / authority omitted where provably possible,
// domain-root mode path absolute, differing schemes => S unchanged) and the two
// specific error codes.
#include "hist.hpp"
#include "pathenum.hpp"

using namespace vf;

static Fields gen(Tape &t) {
  Fields f;
  // one case in six: S and B are objects a short history of library calls left behind (resolved, created, normalised,
  // owned, read back); the clauses that are stated on texts use the texts these objects recompose to
  if (t.below(6) == 5) {
    int hi = t.weighted({4, 3, 2, 1}), hj = t.weighted({4, 3, 2, 1});
    static const int odd[] = {2, -1, 256};
    long long mode = t.chance(11, 12) ? (long long)t.below(2) : odd[t.below(3)];
    int mm = (int)t.below(2), fault = t.chance(3, 4) ? 0 : t.range(1, 6);
    ops_to_fields(f, g_history(t, SEG_ANY, false, 5));
    f.seti("hi", hi); f.seti("hj", hj); f.seti("mode", mode); f.seti("mm", mm); f.seti("fault", fault);
    return f;
  }
  LongMode lm(t, true);
  if (lm.on()) f.seti("long", 1);
  GenUri S, B;
  int k = 0;
  g_source_base(t, &S, &B, &k);
  f.set("src", S.text());
  f.set("base", B.text());
  // UriBool is an int: one case in twelve passes a non-zero value other than URI_TRUE; the round trip holds under either reading
  { static const int odd[] = {2, -1, 256}; f.seti("mode", t.chance(11, 12) ? (long long)t.below(2) : odd[t.below(3)]); }
  f.seti("mm", t.below(2));
  f.seti("klass", k);
  // recording manager only: the k-th allocation of the call fails once; success is then still held to the round trip
  f.seti("fault", t.chance(3, 4) ? 0 : t.range(1, 6));
  // ownership states of the operands: made owner (or normalised with a partial mask) before the call
  // sharing between the operands: 1 = B is parsed from a prefix view of the very buffer S is parsed from (S = B + a few
  // more characters), 2 = one and the same object is passed as source and as base
  int shared = t.chance(9, 10) ? 0 : 1 + (int)t.below(2);
  if (shared == 1) {
    static const std::vector<std::string> more = {"0", "80", "x", "/y", ".org", "b/c", "?q", "1"};
    std::string bt = B.text();
    if (bt.find('#') == std::string::npos) { for (auto &kv : f.kv) if (kv.first == "src") kv.second = esc(bt + t.pick(more)); }  // src = base + suffix
    else shared = 0;
  } else if (shared == 2) { for (auto &kv : f.kv) if (kv.first == "src") kv.second = esc(B.text()); }
  f.seti("shared", shared);
  f.seti("sown", t.chance(3, 4) ? 0 : 1);
  f.seti("bown", t.chance(5, 6) ? 0 : 1);
  return f;
}

static std::string norm_path(const Snap &s) {
  std::string p = m_remove_dots(s.pathText());
  if (s.hasAuth() && p.empty()) p = "/";
  return p;
}
static bool same_authority(const Snap &a, const Snap &b) {
  if (a.hasAuth() != b.hasAuth()) return false;
  if (!a.hasAuth()) return true;
  if (a.user != b.user || a.port != b.port || a.hostKind != b.hostKind) return false;
  if (a.hostKind == HK_IP4) return memcmp(a.ip.data(), b.ip.data(), 4) == 0;
  if (a.hostKind == HK_IP6) return a.ip == b.ip;
  return a.host == b.host;
}
static bool has_dot_seg(const Snap &s) { for (auto &x : s.segs) if (x == "." || x == "..") return true; return false; }

// classes of open known findings for uriRemoveBaseUri (DESIGN.md 7)
static std::string classify(const Snap &S, const Snap &B, int mode) {
  if (has_dot_seg(B)) return "F-S5";
  if (has_dot_seg(S)) return "F-S5s";
  (void)mode;
  return "";
}

static std::string &intact_error() { static std::string e; return e; }

template <class A> static Verdict judge(const Fields &f, typename A::Uri *Sp, typename A::Uri *Bp, bool *relativeBranch);

template <class A> static Verdict check_type(const Fields &f, bool *relativeBranch) {
  using Ch = typename A::Ch;
  Parsed<A> ps, pb;
  int shared = (int)f.geti("shared");
  parse_via<A>(ps, PE_SINGLE_EX, widen<Ch>(f.get("src")));
  if (shared == 1 && f.get("src").compare(0, f.get("base").size(), f.get("base")) == 0) {
    // B is a view of the first characters of S's buffer
    const Ch *ep = nullptr;
    pb.n = f.get("base").size();
    memset(&pb.uri, 0xA5, sizeof pb.uri);
    pb.rc = A::ParseSingleUriEx(&pb.uri, ps.first(), ps.first() + pb.n, &ep);
    pb.live = true;
  } else {
    if (shared == 1) shared = 0;
    parse_via<A>(pb, PE_SINGLE_EX, widen<Ch>(f.get("base")));
  }
  if (ps.rc != 0 || pb.rc != 0) return Verdict::discard();
  typename A::Uri *Bp = shared == 2 ? &ps.uri : &pb.uri;  // alias: the same object as source and base
  if (f.geti("sown")) VF_REQUIRE(A::MakeOwner(&ps.uri) == 0, "%s: uriMakeOwner(S) failed", A::name());
  if (f.geti("bown")) VF_REQUIRE(A::MakeOwner(Bp) == 0, "%s: uriMakeOwner(B) failed", A::name());
  return judge<A>(f, &ps.uri, Bp, relativeBranch);
}

template <class A> static Verdict judge(const Fields &f, typename A::Uri *Sp, typename A::Uri *Bp, bool *relativeBranch) {
  using Ch = typename A::Ch;
  struct { typename A::Uri &uri; } ps{*Sp};
  Snap S = snapshot<A>(ps.uri), B = snapshot<A>(*Bp);
  // whatever happens below, S and B are the caller's: after the reference (and the way back) have been released they
  // must still be what they were, and releasing them afterwards must be clean (ASan: no use after free, no double free)
  struct Intact {
    const typename A::Uri *s, *b; Snap S, B; std::string *err;
    ~Intact() {
      Snap s2 = snapshot<A>(*s), b2 = snapshot<A>(*b);
      std::string ts, tb;
      if (!S.sameAs(s2, false) || !B.sameAs(b2, false) || !to_string<A>(*s, &ts) || !to_string<A>(*b, &tb)) *err = "S or B changed after the reference was released";
    }
  };
  std::string &intactErr = intact_error();
  intactErr.clear();
  int modeRaw = (int)f.geti("mode");
  int mode = modeRaw != 0;
  bool modeCanonical = modeRaw == 0 || modeRaw == 1;
  LedgerMM mm;
  bool useMm = f.geti("mm") != 0;
  Intact intact{&ps.uri, Bp, S, B, &intactErr};
  typename A::Uri d, t;
  memset(&d, 0xA5, sizeof d);
  int fault = useMm ? (int)f.geti("fault") : 0;
  if (fault > 0) mm.fail_at = (uint64_t)fault;
  int rc = useMm ? A::RemoveBaseUriMm(&d, &ps.uri, Bp, (UriBool)modeRaw, &mm.mm)
                 : A::RemoveBaseUri(&d, &ps.uri, Bp, (UriBool)modeRaw);
  struct Cl { typename A::Uri *u; UriMemoryManager *m; bool on; ~Cl() { if (on) A::FreeUriMembersMm(u, m); } };
  Cl cd{&d, useMm ? &mm.mm : nullptr, true};
  bool bit = mm.failed > 0;
  mm.reset_plan();
  if (bit && rc != 0) {
    VF_REQUIRE(rc == URI_ERROR_MALLOC || ((!B.scheme || !S.scheme) && (rc == URI_ERROR_REMOVEBASE_REL_BASE || rc == URI_ERROR_REMOVEBASE_REL_SOURCE)), "%s: allocation %d failed but rc=%d", A::name(), fault, rc);
    stats().hit("reference_creation_ran_out_of_memory");
    return Verdict::pass();
  }
  if (bit) stats().hit("fault_bit_but_success_reported");
  if (!B.scheme || !S.scheme) {
    if (!B.scheme && !S.scheme) VF_REQUIRE(rc == URI_ERROR_REMOVEBASE_REL_BASE || rc == URI_ERROR_REMOVEBASE_REL_SOURCE, "%s: both relative but rc=%d", A::name(), rc);
    else if (!B.scheme) VF_REQUIRE(rc == URI_ERROR_REMOVEBASE_REL_BASE, "%s: base without scheme but rc=%d", A::name(), rc);
    else VF_REQUIRE(rc == URI_ERROR_REMOVEBASE_REL_SOURCE, "%s: source without scheme but rc=%d", A::name(), rc);
    return Verdict::pass();
  }
  VF_REQUIRE(rc == 0, "%s: rc=%d for two absolute URIs", A::name(), rc);
  std::string wf = wellformed<A>(d);
  Snap D = snapshot<A>(d);
  std::string dtext;
  to_string<A>(d, &dtext);
  std::string klass = classify(S, B, mode);
  auto fail = [&](const std::string &m) {
    return Verdict::fail(std::string(A::name()) + ": S='" + esc(f.get("src")) + "' B='" + esc(f.get("base")) + "' mode=" + std::to_string(mode) + " -> '" + esc(dtext) + "': " + m, klass);
  };
  if (!wf.empty()) return fail("reference not well formed: " + wf);
  // the way back
  memset(&t, 0xA5, sizeof t);
  int rc2 = A::AddBaseUri(&t, &d, Bp);
  Cl ct{&t, nullptr, true};
  if (rc2 != 0) return fail("resolving the reference against B fails with rc=" + std::to_string(rc2));
  Snap T = snapshot<A>(t);
  std::string ttext;
  to_string<A>(t, &ttext);
  bool back = T.scheme == S.scheme && same_authority(T, S) && norm_path(T) == norm_path(S) && T.query == S.query && T.frag == S.frag;
  if (!back) {
    // was it the way back that went wrong? ask the resolution model on the texts
    std::string note;
    if (uriref_matcher().matches(dtext)) {
      MResolved mr = m_resolve(m_split(f.get("base")), m_split(dtext), false);
      std::string mt = m_recompose(mr.t);
      if (mt != ttext && !mr.needsGuard) note = " (NOTE: the resolution model resolves the reference text to '" + mt + "')";
    }
    return fail("resolves back to '" + esc(ttext) + "', not to S" + note);
  }
  // a reference is text in the end: the way back must also work from the reference as written out and read again
  {
    VF_REQUIRE(uriref_matcher().matches(dtext), "%s: the created reference '%s' is not a valid URI reference", A::name(), esc(dtext).c_str());
    Parsed<A> pd;
    parse_via<A>(pd, PE_SINGLE_EX, widen<Ch>(dtext));
    if (pd.rc != 0) return fail("the created reference does not parse (rc=" + std::to_string(pd.rc) + ")");
    typename A::Uri t2;
    memset(&t2, 0xA5, sizeof t2);
    int rc3 = A::AddBaseUri(&t2, &pd.uri, Bp);
    Cl ct2{&t2, nullptr, true};
    if (rc3 != 0) return fail("resolving the written-out reference against B fails with rc=" + std::to_string(rc3));
    Snap T2 = snapshot<A>(t2);
    bool back2 = T2.scheme == S.scheme && same_authority(T2, S) && norm_path(T2) == norm_path(S) && T2.query == S.query && T2.frag == S.frag;
    if (!back2) { std::string t2text; to_string<A>(t2, &t2text); return fail("written out and read again it resolves to '" + esc(t2text) + "', not to S"); }
  }
  // shape clauses
  bool sameScheme = S.scheme == B.scheme;
  if (!sameScheme) {
    if (dtext != f.get("src") && !(S.hostKind == HK_IP6)) return fail("schemes differ, so the reference must be S unchanged");
    if (!(D.scheme == S.scheme && same_authority(D, S) && D.pathText() == S.pathText() && D.query == S.query && D.frag == S.frag)) return fail("schemes differ, so the reference must be S unchanged");
    return Verdict::pass();
  }
  *relativeBranch = same_authority(S, B) || true;
  // Can a reference without scheme resolve to S at all? With an authority in S: always (network-path reference). Without:
  // never if B has one (it would be inherited); an absolute path of S can always be given as it is; a rootless or empty
  // path of S can be reached from a rootless or empty base path (climbing with '..', '.' for the empty path, './' in front
  // of a colon) and never from an absolute one. In domain-root mode the reference's path has to be absolute, so only the
  // first three lines apply.
  bool provable = S.hasAuth() || (!S.hasAuth() && !B.hasAuth() && S.absolutePath) ||
                  (mode == 0 && !S.hasAuth() && !B.hasAuth() && !S.absolutePath && !B.absolutePath);
  if (provable && D.scheme) return fail("S and B share the scheme and a scheme-less reference exists, but the reference keeps the scheme");
  if (same_authority(S, B) && D.hasAuth()) return fail("S and B share the whole authority but the reference keeps an authority");
  if (mode == 1 && modeCanonical && same_authority(S, B) && S.hasAuth()) {
    std::string dp = D.pathText();
    if (dp.empty() || dp[0] != '/') return fail("domain-root mode: the reference path '" + dp + "' is not absolute");
  }
  if (useMm) {
    cd.on = false;
    A::FreeUriMembersMm(&d, &mm.mm);
    VF_REQUIRE(mm.outstanding() == 0 && mm.bad_free == 0, "%s: manager ledger unbalanced after releasing the reference", A::name());
  }
  return Verdict::pass();
}

template <class A> static Verdict check_history(const Fields &f, std::string *desc, bool *nt) {
  World<A> w;
  for (auto &op : ops_from_fields(f)) w.exec(op);
  std::vector<int> v = w.made_first();
  if (v.size() < 2) return Verdict::discard();
  size_t ri = (size_t)f.geti("hi") % v.size(), rj = (size_t)f.geti("hj") % v.size();
  if (ri == rj && f.geti("hi") != f.geti("hj")) rj = (rj + 1) % v.size();
  int i = v[ri], j = v[rj];
  std::string st, bt;
  if (!w.faithful_text(i, &st) || !w.faithful_text(j, &bt)) { stats().hit("history_operand_not_text_faithful"); return Verdict::pass(); }
  Fields g = f;
  g.set("src", st); g.set("base", bt);
  *desc = "S(" + w.at(i).origin + ")=" + esc(st) + " B(" + w.at(j).origin + ")=" + esc(bt) + " mode=" + std::to_string(f.geti("mode"));
  bool rel = false;
  Verdict r = judge<A>(g, &w.at(i).uri, &w.at(j).uri, &rel);
  if (r.kind == Verdict::FAIL) r.msg += " {operands out of a history: " + *desc + "}";
  else if (r.kind == Verdict::PASS) {
    stats().hit("history_S_origin=" + w.at(i).origin.substr(0, 1)); stats().hit("history_B_origin=" + w.at(j).origin.substr(0, 1));
    MUri s = m_split(st), b = m_split(bt);
    if (s.hasScheme && b.hasScheme && s.scheme == b.scheme && s.hasAuth == b.hasAuth && (!s.hasAuth || s.host == b.host)) *nt = true;
  }
  return r;
}

static Verdict check(const Fields &f) {
  if (f.has("n")) {
    for (auto &op : ops_from_fields(f)) if (op.kind == 'P' && !uriref_matcher().matches(op.text)) return Verdict::discard();
    std::string d, d2; bool nt = false;
    Verdict v = check_history<Api<char>>(f, &d, &nt);
    if (v.kind != Verdict::PASS) return v;
    if (!intact_error().empty()) return Verdict::fail("A: " + d + ": " + intact_error());
    v = check_history<Api<wchar_t>>(f, &d2, &nt);
    if (v.kind != Verdict::PASS) return v;
    if (!intact_error().empty()) return Verdict::fail("W: " + d2 + ": " + intact_error());
    stats().hit("arm=operands_from_history");
    if (nt) stats().nontrivial(f.text(), d);
    return Verdict::pass();
  }
  if (!uriref_matcher().matches(f.get("src")) || !uriref_matcher().matches(f.get("base"))) return Verdict::discard();
  bool rel = false;
  Verdict v = check_type<Api<char>>(f, &rel);
  if (v.kind != Verdict::PASS) return v;
  if (!intact_error().empty()) return Verdict::fail("A: S='" + esc(f.get("src")) + "' B='" + esc(f.get("base")) + "': " + intact_error());
  v = check_type<Api<wchar_t>>(f, &rel);
  if (v.kind != Verdict::PASS) return v;
  if (!intact_error().empty()) return Verdict::fail("W: S='" + esc(f.get("src")) + "' B='" + esc(f.get("base")) + "': " + intact_error());
  if (f.geti("shared") == 1) stats().hit("B_is_a_prefix_view_of_S_buffer");
  if (f.geti("shared") == 2) stats().hit("same_object_as_source_and_base");
  if (f.geti("sown")) stats().hit("S_owner_before_the_call");
  if (f.geti("bown")) stats().hit("B_owner_before_the_call");
  stats().hit("overlap_class=" + std::to_string(f.geti("klass")));
  stats().hit(f.geti("mode") ? "mode=domain_root" : "mode=relative");
  MUri s = m_split(f.get("src")), b = m_split(f.get("base"));
  if (s.hasScheme && b.hasScheme && s.scheme == b.scheme && s.hasAuth == b.hasAuth && (!s.hasAuth || s.host == b.host))
    stats().nontrivial(f.text(), "S=" + esc(f.get("src")) + " B=" + esc(f.get("base")) + " mode=" + std::to_string(f.geti("mode")));
  return Verdict::pass();
}

// every (source, base) pair of the bounded domain of absolute URIs, both modes
static Verdict enumerate(int tier, int shard, int nshards, Fields *failing) {
  static PathDomain d = path_domain(tier);
  uint64_t n = d.abss.size();
  return enum_drive(n * n * 2, shard, nshards, check, [&](uint64_t i) {
    Fields f;
    f.set("src", d.abss[(size_t)(i / 2 / n)]); f.set("base", d.abss[(size_t)(i / 2 % n)]);
    f.seti("mode", (long long)(i & 1)); f.seti("mm", (long long)((i >> 1) & 1)); f.seti("klass", 10); f.seti("fault", 0);
    f.seti("sown", (long long)((i / 2) % 3 == 0)); f.seti("bown", (long long)((i / 2) % 5 == 0));
    return f;
  }, failing);
}

const Harness vf::HARNESS = {"C10", gen, check, enumerate, nullptr};
