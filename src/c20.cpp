// C20  Concurrent calls on distinct objects are safe; no mutable shared state.
// A workload = shared read-only inputs (parsed base and source URIs, a query list,
// texts) + 2..8 threads with generated op lists over every public call that takes
// those inputs as const, plus calls on thread-private objects. Oracles:
// (a) each result under concurrency == the result computed single-threaded before;
// (b) the same binary built with ThreadSanitizer: any race report is a violation
//     (happens-before analysis: a race is reported whenever both accesses execute,
//     whatever the interleaving);
// (c) the writable, non-RELRO segments of the plain shared object are checksummed
//     before the first call and after every workload: they must never change.
#include <dlfcn.h>
#include <sys/mman.h>
#include <link.h>
#include <sched.h>
#include <atomic>
#include <thread>
#include "gen.hpp"
#include "parse_common.hpp"

using namespace vf;

static Fields gen(Tape &t) {
  Fields f;
  GenUri b = g_base(t, true);
  GenUri S, B2; int k;
  g_source_base(t, &S, &B2, &k);
  S.scheme = b.scheme; S.hasScheme = true;
  f.set("base", b.text());
  f.set("src", S.text());
  f.set("ref", g_ref(t, b).text());
  f.set("query", t.coin() ? "a=b&c=d+e&k" : "x=%41&y=%0D%0A&&z");
  f.set("text", t.coin() ? "a b/c%d\r\n" : "C:\\dir\\file name");
  int T = t.range(2, 8);
  f.seti("threads", T);
  for (int i = 0; i < T; i++) {
    int n = t.range(3, 10);
    std::string ops;
    // op + yield/spin amount + allocation-failure position for the thread's private memory manager (0 = default manager, no fault)
    for (int j = 0; j < n; j++) { ops += (char)('a' + t.below(14)); ops += (char)('0' + t.below(4)); ops += (char)('0' + (t.chance(1, 2) ? 0 : t.below(8))); }
    f.set("ops." + std::to_string(i), ops);
  }
  f.seti("wide", t.below(2));
  // a caller may fill in or edit a UriUri by hand: the absolute-path flag is documented as irrelevant for URIs with a host,
  // so it may well be set there; one workload in six shares operands edited that way
  f.seti("handedit", t.chance(5, 6) ? 0 : 1);
  return f;
}

static void *be_malloc(UriMemoryManager *, size_t n) { return malloc(n); }
static void *be_realloc(UriMemoryManager *, void *p, size_t n) { return realloc(p, n); }
static void be_free(UriMemoryManager *, void *p) { free(p); }

// Everything the threads share as read-only input lives in one arena of its own pages: the URI structures, their path
// nodes and host data (allocated by the library through the arena's manager), the texts they were parsed from, the query
// list and the backend manager. Once set up the arena is switched to PROT_READ for the single-threaded expectation phase
// and for the concurrent phase: a write into a shared input faults even if it stores the value that is already there
// (which no before/after comparison can see, and which is a data race all the same).
struct Arena {
  char *base = nullptr;
  size_t size = 0, used = 0;
  UriMemoryManager mm;
  Arena() {
    size = (size_t)4 << 20;
    base = (char *)mmap(nullptr, size, PROT_READ | PROT_WRITE, MAP_PRIVATE | MAP_ANONYMOUS, -1, 0);
    if (base == MAP_FAILED) abort();
    mm.malloc = &s_malloc; mm.calloc = &s_calloc; mm.realloc = &s_realloc; mm.reallocarray = &s_reallocarray; mm.free = &s_free; mm.userData = this;
  }
  ~Arena() { munmap(base, size); }
  Arena(const Arena &) = delete;
  void *alloc(size_t n) {
    size_t need = ((n + 15) & ~(size_t)15) + 16;
    if (used + need > size) { errno = ENOMEM; return nullptr; }
    char *p = base + used;
    *(size_t *)p = n;
    used += need;
    return p + 16;
  }
  void protect(bool ro) { mprotect(base, size, ro ? PROT_READ : (PROT_READ | PROT_WRITE)); }
  static void *s_malloc(UriMemoryManager *m, size_t n) { return ((Arena *)m->userData)->alloc(n); }
  static void *s_calloc(UriMemoryManager *m, size_t a, size_t b) { void *p = ((Arena *)m->userData)->alloc(a * b); if (p) memset(p, 0, a * b); return p; }
  static void *s_realloc(UriMemoryManager *m, void *old, size_t n) {
    void *p = ((Arena *)m->userData)->alloc(n);
    if (p && old) { size_t o = *(size_t *)((char *)old - 16); memcpy(p, old, o < n ? o : n); }
    return p;
  }
  static void *s_reallocarray(UriMemoryManager *m, void *old, size_t a, size_t b) { return s_realloc(m, old, a * b); }
  static void s_free(UriMemoryManager *, void *) {}
};

template <class A> struct Shared {
  using Ch = typename A::Ch;
  std::basic_string<Ch> baseT, srcT, refT, queryT, textT;  // the threads' own copies are made from these
  Arena arena;  // (declared before everything that lives in it)
  struct InArena {
    typename A::Uri base, src, ref;
    typename A::QL *ql;
    // a backend manager (malloc / realloc / free only) that every thread completes its own manager from: an input, never written
    UriMemoryManager backend;
  } *in = nullptr;
  typename A::Uri &base, &src, &ref;
  typename A::QL *&ql;
  UriMemoryManager &backend;
  const Ch *queryA = nullptr, *textA = nullptr;  // the query and the plain text inside the arena
  bool ok = false;
  Shared() : in((InArena *)arena.alloc(sizeof(InArena))), base(in->base), src(in->src), ref(in->ref), ql(in->ql), backend(in->backend) { memset(in, 0, sizeof *in); }
  ~Shared() { arena.protect(false); }  // the arena's free is a no-op: the mapping goes away as a whole
  const Ch *put(const std::basic_string<Ch> &s) {
    Ch *p = (Ch *)arena.alloc((s.size() + 1) * sizeof(Ch));
    memcpy(p, s.c_str(), (s.size() + 1) * sizeof(Ch));
    return p;
  }
  bool init(const Fields &f) {
    baseT = widen<Ch>(f.get("base")); srcT = widen<Ch>(f.get("src")); refT = widen<Ch>(f.get("ref")); queryT = widen<Ch>(f.get("query")); textT = widen<Ch>(f.get("text"));
    const Ch *ep;
    const Ch *b = put(baseT), *s = put(srcT), *r = put(refT);
    queryA = put(queryT); textA = put(textT);
    if (A::ParseSingleUriExMm(&base, b, b + baseT.size(), &ep, &arena.mm) != 0) return false;
    if (A::ParseSingleUriExMm(&src, s, s + srcT.size(), &ep, &arena.mm) != 0) return false;
    if (A::ParseSingleUriExMm(&ref, r, r + refT.size(), &ep, &arena.mm) != 0) return false;
    int cnt;
    if (A::DissectQueryMallocExMm(&ql, &cnt, queryA, queryA + queryT.size(), URI_TRUE, URI_BR_DONT_TOUCH, &arena.mm) != 0) return false;
    memset(&backend, 0, sizeof backend);
    backend.malloc = &be_malloc; backend.realloc = &be_realloc; backend.free = &be_free;
    ok = true;
    return true;
  }
};

template <class A> static std::string text_of(const typename A::Uri &u) { std::string s; to_string<A>(u, &s); return s; }

// one operation; every shared argument is passed as const. fault > 0: the call goes through the thread's own
// memory manager `mm`, whose fault-th request fails once (fault == 7: no failure, custom manager only).
template <class A> static std::string do_op_mm(const Shared<A> &S, char op, LedgerMM *mm, int fault);
template <class A> static std::string do_op(const Shared<A> &S, char op, LedgerMM *mm = nullptr, int fault = 0) {
  using Ch = typename A::Ch;
  if (mm && fault > 0 && strchr("abijlm", op)) return do_op_mm<A>(S, op, mm, fault);
  switch (op) {
    case 'a': { typename A::Uri d; int rc = A::AddBaseUri(&d, &S.ref, &S.base); std::string r = std::to_string(rc) + ":" + (rc == 0 ? text_of<A>(d) : ""); A::FreeUriMembers(&d); return r; }
    case 'b': { typename A::Uri d; int rc = A::RemoveBaseUri(&d, &S.src, &S.base, URI_FALSE); std::string r = std::to_string(rc) + ":" + (rc == 0 ? text_of<A>(d) : ""); A::FreeUriMembers(&d); return r; }
    case 'c': return std::to_string(A::EqualsUri(&S.base, &S.src)) + std::to_string(A::EqualsUri(&S.base, &S.base));
    case 'd': { int n = -1; A::ToStringCharsRequired(&S.base, &n); return std::to_string(n) + ":" + text_of<A>(S.base); }
    case 'e': { unsigned m = 0, m3 = 0; A::NormalizeSyntaxMaskRequiredEx(&S.src, &m); A::NormalizeSyntaxMaskRequiredEx(&S.ref, &m3); return std::to_string(m) + "/" + std::to_string(A::NormalizeSyntaxMaskRequired(&S.base)) + "/" + std::to_string(m3); }  // incl. the (usually relative) reference
    case 'f': { Ch *s = nullptr; int rc = A::ComposeQueryMalloc(&s, S.ql); std::string r = std::to_string(rc); if (rc == 0) { size_t l = 0; while (s[l]) l++; r += narrow<Ch>(s, s + l); free(s); } return r; }
    case 'g': { std::vector<Ch> out(6 * S.textT.size() + 1); Ch *e = A::Escape(S.textA, out.data(), URI_TRUE, URI_TRUE); return narrow<Ch>(out.data(), e); }
    case 'h': { std::vector<Ch> out(8 + 3 * S.textT.size() + 1); A::WindowsFilenameToUriString(S.textA, out.data()); size_t l = 0; while (out[l]) l++; return narrow<Ch>(out.data(), out.data() + l); }
    case 'i': {  // private: parse -> normalise -> text
      typename A::Uri u; const Ch *ep;
      std::basic_string<Ch> copy = S.srcT;
      if (A::ParseSingleUri(&u, copy.c_str(), &ep) != 0) return "parsefail";
      A::NormalizeSyntax(&u);
      std::string r = text_of<A>(u);
      A::FreeUriMembers(&u);
      return r;
    }
    case 'j': {  // private: parse -> make owner -> text
      typename A::Uri u; const Ch *ep;
      std::basic_string<Ch> copy = S.refT;
      if (A::ParseSingleUri(&u, copy.c_str(), &ep) != 0) return "parsefail";
      A::MakeOwner(&u);
      std::string r = text_of<A>(u);
      A::FreeUriMembers(&u);
      return r;
    }
    case 'k': { typename A::QL *q = nullptr; int cnt = -1; int rc = A::DissectQueryMallocEx(&q, &cnt, S.queryA, S.queryA + S.queryT.size(), URI_TRUE, URI_BR_TO_LF); A::FreeQueryList(q); return std::to_string(rc) + ":" + std::to_string(cnt); }
    case 'l': { typename A::Uri d; int rc = A::AddBaseUriEx(&d, &S.src, &S.base, URI_RESOLVE_IDENTICAL_SCHEME_COMPAT); std::string r = std::to_string(rc) + ":" + (rc == 0 ? text_of<A>(d) : ""); A::FreeUriMembers(&d); return r; }
    case 'n': {  // complete a private manager from the shared backend and use it once
      UriMemoryManager mine;
      int rc = uriCompleteMemoryManager(&mine, const_cast<UriMemoryManager *>(&S.backend));
      std::string r = std::to_string(rc);
      if (rc == 0) { void *p = mine.calloc(&mine, 3, 5); r += p ? ":ok" : ":null"; mine.free(&mine, p); }
      return r;
    }
    default: { typename A::Uri d; int rc = A::RemoveBaseUri(&d, &S.base, &S.src, URI_TRUE); std::string r = std::to_string(rc) + ":" + (rc == 0 ? text_of<A>(d) : ""); A::FreeUriMembers(&d); return r; }
  }
}

template <class A> static std::string do_op_mm(const Shared<A> &S, char op, LedgerMM *mm, int fault) {
  using Ch = typename A::Ch;
  mm->reset_counts(); mm->reset_plan();
  if (fault < 7) mm->fail_at = (uint64_t)fault;
  typename A::Uri d;
  memset(&d, 0, sizeof d);
  int rc = 0;
  std::string r;
  std::basic_string<Ch> copy;
  switch (op) {
    case 'a': rc = A::AddBaseUriExMm(&d, &S.ref, &S.base, URI_RESOLVE_STRICTLY, &mm->mm); break;
    case 'b': rc = A::RemoveBaseUriMm(&d, &S.src, &S.base, URI_FALSE, &mm->mm); break;
    case 'l': rc = A::AddBaseUriExMm(&d, &S.src, &S.base, URI_RESOLVE_IDENTICAL_SCHEME_COMPAT, &mm->mm); break;
    case 'm': rc = A::RemoveBaseUriMm(&d, &S.base, &S.src, URI_TRUE, &mm->mm); break;
    case 'i': case 'j': {
      const Ch *ep;
      copy = op == 'i' ? S.srcT : S.refT;
      rc = A::ParseSingleUriExMm(&d, copy.data(), copy.data() + copy.size(), &ep, &mm->mm);
      if (rc == 0) rc = op == 'i' ? A::NormalizeSyntaxExMm(&d, (unsigned)-1, &mm->mm) : A::MakeOwnerMm(&d, &mm->mm);
      break;
    }
    default: break;
  }
  r = std::to_string(rc) + ":" + (rc == 0 ? text_of<A>(d) : "");
  A::FreeUriMembersMm(&d, &mm->mm);
  mm->reset_plan();
  if (mm->outstanding() != 0) r += "|LEAK:" + std::to_string(mm->outstanding());
  if (mm->bad_free) r += "|BADFREE:" + mm->bad_free_what;
  return r;
}

template <class A> static Verdict run_workload(const Fields &f, int *sharedOps) {
  Shared<A> S;
  if (!S.init(f)) return Verdict::discard();
  if (f.geti("handedit")) for (typename A::Uri *u : {&S.base, &S.src, &S.ref}) if (u->hostText.first != nullptr) u->absolutePath = URI_TRUE;
  const std::string frozenBase0 = freeze<A>(S.base), frozenSrc0 = freeze<A>(S.src), frozenRef0 = freeze<A>(S.ref);
  const UriMemoryManager backend0 = S.backend;
  S.arena.protect(true);  // from here on the shared inputs are read-only memory
  stats().hit("shared_inputs_in_read_only_pages");
  int T = (int)f.geti("threads");
  std::vector<std::string> lists((size_t)T);
  for (int i = 0; i < T; i++) lists[(size_t)i] = f.get("ops." + std::to_string(i));
  // expected results, single-threaded (per op and fault position)
  std::map<std::string, std::string> expect;
  {
    LedgerMM mm0;
    for (auto &l : lists) for (size_t j = 0; j + 2 < l.size() + 0; j += 3) {
      std::string key = {l[j], l[j + 2]};
      if (expect.count(key)) continue;
      expect[key] = do_op<A>(S, l[j], &mm0, l[j + 2] - '0');
      if (expect[key].find("|LEAK") != std::string::npos || expect[key].find("|BADFREE") != std::string::npos)
        return Verdict::fail(std::string(A::name()) + ": op '" + l[j] + "' with allocation " + l[j + 2] + " failing: " + esc(expect[key]) + " (a call on a private object released or kept memory that is not its own)");
    }
  }
  VF_REQUIRE(freeze<A>(S.base) == frozenBase0 && freeze<A>(S.src) == frozenSrc0 && freeze<A>(S.ref) == frozenRef0, "%s: a call that takes the shared URIs as read-only arguments modified one of them (single-threaded)", A::name());
  std::string frozenBase = frozenBase0, frozenSrc = frozenSrc0, frozenRef = frozenRef0;
  std::atomic<int> ready{0};
  std::atomic<bool> go{false};
  std::vector<std::string> errs((size_t)T);
  std::vector<std::thread> th;
  for (int i = 0; i < T; i++) {
    th.emplace_back([&, i]() {
      LedgerMM mm;  // thread-private manager
      ready.fetch_add(1);
      while (!go.load(std::memory_order_acquire)) {}
      const std::string &ops = lists[(size_t)i];
      for (int rep = 0; rep < 3; rep++) {
        for (size_t j = 0; j + 2 < ops.size() + 0; j += 3) {
          std::string r = do_op<A>(S, ops[j], &mm, ops[j + 2] - '0');
          const std::string &want = expect.at(std::string{ops[j], ops[j + 2]});
          if (r != want && errs[(size_t)i].empty())
            errs[(size_t)i] = std::string("thread ") + std::to_string(i) + " op '" + ops[j] + "' fault " + ops[j + 2] + ": got '" + esc(r) + "', alone it returns '" + esc(want) + "'";
          int y = ops[j + 1] - '0';
          if (y == 1) sched_yield();
          else for (volatile int s = 0; s < y * 50; s++) {}
        }
      }
    });
  }
  while (ready.load() < T) {}
  go.store(true, std::memory_order_release);
  for (auto &t : th) t.join();
  for (auto &e : errs) if (!e.empty()) return Verdict::fail(std::string(A::name()) + ": " + e);
  VF_REQUIRE(freeze<A>(S.base) == frozenBase && freeze<A>(S.src) == frozenSrc && freeze<A>(S.ref) == frozenRef, "%s: a shared read-only URI was modified", A::name());
  VF_REQUIRE(memcmp(&backend0, &S.backend, sizeof backend0) == 0, "%s: the shared backend manager given to uriCompleteMemoryManager as input was modified", A::name());
  for (auto &l : lists) for (size_t j = 0; j + 2 < l.size() + 0; j += 3) { if (strchr("abcdefghlmn", l[j])) (*sharedOps)++; if (l[j + 2] != '0' && strchr("abijlm", l[j])) stats().hit("ops_with_private_manager_and_fault"); }
  stats().sub_evaluations += 3;
  return Verdict::pass();
}

// ---- (c) writable segments of the plain shared object ------------------------------------------
struct SoCheck {
  void *h = nullptr;
  std::vector<std::pair<char *, size_t>> ranges;
  uint64_t sum0 = 0;
  bool tried = false;
  std::string err;
  static int cb(struct dl_phdr_info *info, size_t, void *data) {
    SoCheck *self = (SoCheck *)data;
    if (!info->dlpi_name || !strstr(info->dlpi_name, "liburi_plain.so")) return 0;
    uintptr_t relroLo = 0, relroHi = 0;
    for (int i = 0; i < info->dlpi_phnum; i++)
      if (info->dlpi_phdr[i].p_type == PT_GNU_RELRO) { relroLo = info->dlpi_addr + info->dlpi_phdr[i].p_vaddr; relroHi = relroLo + info->dlpi_phdr[i].p_memsz; }
    for (int i = 0; i < info->dlpi_phnum; i++) {
      const ElfW(Phdr) &p = info->dlpi_phdr[i];
      if (p.p_type != PT_LOAD || !(p.p_flags & PF_W)) continue;
      uintptr_t lo = info->dlpi_addr + p.p_vaddr, hi = lo + p.p_memsz;
      // RELRO covers the beginning of the RW segment (page-rounded by the loader)
      uintptr_t rhi = (relroHi + 4095) & ~(uintptr_t)4095;
      if (relroLo <= lo && rhi > lo) lo = rhi < hi ? rhi : hi;
      if (hi > lo) self->ranges.emplace_back((char *)lo, hi - lo);
    }
    return 0;
  }
  uint64_t sum() { uint64_t s = 1469598103934665603ull; for (auto &r : ranges) for (size_t i = 0; i < r.second; i++) { s ^= (unsigned char)r.first[i]; s *= 1099511628211ull; } return s; }
  typedef int (*parse_t)(UriUriA *, const char *, const char **);
  typedef int (*norm_t)(UriUriA *);
  typedef int (*tostr_t)(char *, const UriUriA *, int, int *);
  typedef int (*add_t)(UriUriA *, const UriUriA *, const UriUriA *);
  typedef int (*rem_t)(UriUriA *, const UriUriA *, const UriUriA *, UriBool);
  typedef void (*free_t)(UriUriA *);
  typedef unsigned (*mask_t)(const UriUriA *);
  typedef UriBool (*eq_t)(const UriUriA *, const UriUriA *);
  typedef int (*dis_t)(UriQueryListA **, int *, const char *, const char *);
  typedef int (*cmp_t)(char **, const UriQueryListA *);
  typedef void (*fql_t)(UriQueryListA *);
  typedef char *(*esc_t)(const char *, char *, UriBool, UriBool);
  typedef int (*own_t)(UriUriA *);
  parse_t parse; norm_t norm; tostr_t tostr; add_t add; rem_t rem; free_t fre; mask_t mask; eq_t eq; dis_t dis; cmp_t cmp; fql_t fql; esc_t escp; own_t own;
  bool open() {
    if (tried) return h != nullptr;
    tried = true;
    const char *path = getenv("VF_PLAIN_SO");
    if (!path) path = "build/plain/liburi_plain.so";
    h = dlopen(path, RTLD_NOW | RTLD_LOCAL);
    if (!h) { err = std::string("cannot load ") + path + ": " + dlerror(); return false; }
#define SYM(var, type, name) var = (type)dlsym(h, name); if (!var) { err = std::string("missing symbol ") + name; h = nullptr; return false; }
    SYM(parse, parse_t, "uriParseSingleUriA") SYM(norm, norm_t, "uriNormalizeSyntaxA") SYM(tostr, tostr_t, "uriToStringA") SYM(add, add_t, "uriAddBaseUriA")
    SYM(rem, rem_t, "uriRemoveBaseUriA") SYM(fre, free_t, "uriFreeUriMembersA") SYM(mask, mask_t, "uriNormalizeSyntaxMaskRequiredA") SYM(eq, eq_t, "uriEqualsUriA")
    SYM(dis, dis_t, "uriDissectQueryMallocA") SYM(cmp, cmp_t, "uriComposeQueryMallocA") SYM(fql, fql_t, "uriFreeQueryListA") SYM(escp, esc_t, "uriEscapeA") SYM(own, own_t, "uriMakeOwnerA")
#undef SYM
    dl_iterate_phdr(cb, this);
    if (ranges.empty()) { err = "no writable segment found in the plain shared object"; h = nullptr; return false; }
    sum0 = sum();
    return true;
  }
  // a single-threaded tour through the shared object's entry points with the case's inputs
  void tour(const Fields &f) {
    std::string b = f.get("base"), s = f.get("src"), r = f.get("ref"), q = f.get("query"), t = f.get("text");
    UriUriA ub, us, ur, d;
    const char *ep;
    if (parse(&ub, b.c_str(), &ep) != 0) return;
    if (parse(&us, s.c_str(), &ep) != 0) { fre(&ub); return; }
    if (parse(&ur, r.c_str(), &ep) != 0) { fre(&ub); fre(&us); return; }
    char buf[4096]; int w;
    if (add(&d, &ur, &ub) == 0) { tostr(buf, &d, sizeof buf, &w); norm(&d); } fre(&d);
    if (rem(&d, &us, &ub, URI_FALSE) == 0) { tostr(buf, &d, sizeof buf, &w); own(&d); } fre(&d);
    mask(&us); eq(&ub, &us);
    norm(&us); tostr(buf, &us, sizeof buf, &w);
    UriQueryListA *ql = nullptr; int cnt; char *cs = nullptr;
    if (dis(&ql, &cnt, q.c_str(), q.c_str() + q.size()) == 0) { if (ql && cmp(&cs, ql) == 0) free(cs); fql(ql); }
    std::vector<char> eo(6 * t.size() + 1);
    escp(t.c_str(), eo.data(), URI_TRUE, URI_TRUE);
    fre(&ub); fre(&us); fre(&ur);
  }
};
static SoCheck &so() { static SoCheck s; return s; }

static Verdict check(const Fields &f) {
  for (const char *k : {"base", "src", "ref"}) if (!uriref_matcher().matches(f.get(k))) return Verdict::discard();
  int sharedOps = 0;
  Verdict v = f.geti("wide") ? run_workload<Api<wchar_t>>(f, &sharedOps) : run_workload<Api<char>>(f, &sharedOps);
  if (v.kind != Verdict::PASS) return v;
#ifndef __SANITIZE_THREAD__
  if (so().open()) {
    so().tour(f);
    if (so().sum() != so().sum0) return Verdict::fail("the writable (non-RELRO) data of the library's shared object changed during a workload: the library keeps mutable global or static state");
    stats().hit("writable_segment_checks");
  } else stats().hit("shared_object_unavailable");
#endif
  int T = (int)f.geti("threads");
  stats().hit("threads=" + std::to_string(T));
  stats().hit(f.geti("wide") ? "api=wchar_t" : "api=char");
  if (f.geti("handedit")) stats().hit("shared_operands_edited_by_hand");
  if (T >= 2 && sharedOps >= 2) stats().nontrivial(f.text(), f.text().substr(0, 400));
  return Verdict::pass();
}

static std::string selftest() {
#ifndef __SANITIZE_THREAD__
  if (!so().open()) return "writable-segment oracle unavailable: " + so().err;
#endif
  return "";
}

const Harness vf::HARNESS = {"C20", gen, check, nullptr, selftest};
