// Driving all five parse entry points on one text (shared by C01..C04).
#pragma once
#include <memory>
#include "observe.hpp"

namespace vf {

enum ParseEntry { PE_STATE_EX = 0, PE_STATE_Z, PE_SINGLE_Z, PE_SINGLE_EX, PE_SINGLE_EX_NULLEND, PE_SINGLE_MM, PE_SINGLE_Z_NOERR, PE_SINGLE_EX_NOERR, PE_COUNT };
inline const char *entry_name(int e) {
  static const char *n[] = {"ParseUriEx", "ParseUri", "ParseSingleUri", "ParseSingleUriEx", "ParseSingleUriEx(NULL end)", "ParseSingleUriExMm",
                            "ParseSingleUri(errorPos NULL)", "ParseSingleUriEx(errorPos NULL)"};
  return n[e];
}
inline bool entry_needs_z(int e) { return e == PE_STATE_Z || e == PE_SINGLE_Z || e == PE_SINGLE_EX_NULLEND || e == PE_SINGLE_Z_NOERR; }
inline bool entry_reports_errorpos(int e) { return e != PE_SINGLE_Z_NOERR && e != PE_SINGLE_EX_NOERR; }  // the optional output is passed as NULL there

template <class A> struct Parsed {
  using Ch = typename A::Ch;
  typename A::Uri uri;
  std::unique_ptr<Ch[]> buf;  // exact-size private copy of the input (plus terminator only for the Z entries)
  size_t n = 0;
  int rc = -1;
  int stateCode = -1;         // state-based entries only
  const Ch *errorPos = nullptr;
  bool errorPosSet = false;
  LedgerMM *mm = nullptr;     // manager used (PE_SINGLE_MM)
  bool live = false;
  const Ch *first() const { return buf.get(); }
  const Ch *afterLast() const { return buf.get() + n; }
  void release() {
    if (!live) return;
    if (mm) A::FreeUriMembersMm(&uri, &mm->mm); else A::FreeUriMembers(&uri);
    live = false;
  }
  ~Parsed() { release(); }
};

// Parses `s` through entry point e. The Uri is poisoned before the call so that
// "output fully initialised" is part of what is observed.
template <class A>
void parse_via(Parsed<A> &p, int e, const std::basic_string<typename A::Ch> &s, LedgerMM *mm = nullptr) {
  using Ch = typename A::Ch;
  bool z = entry_needs_z(e);
  p.n = s.size();
  p.buf.reset(new Ch[p.n + (z ? 1 : 0)]);
  if (p.n) memcpy(p.buf.get(), s.data(), p.n * sizeof(Ch));
  if (z) p.buf[p.n] = 0;
  memset(&p.uri, 0xA5, sizeof p.uri);
  const Ch *sentinel = (const Ch *)(uintptr_t)0x1;
  p.errorPos = sentinel;
  typename A::State st;
  memset(&st, 0xA5, sizeof st);
  st.uri = &p.uri;
  p.mm = nullptr;
  switch (e) {
    case PE_STATE_EX: p.rc = A::ParseUriEx(&st, p.first(), p.afterLast()); p.stateCode = st.errorCode; p.errorPos = st.errorPos; break;
    case PE_STATE_Z: p.rc = A::ParseUri(&st, p.first()); p.stateCode = st.errorCode; p.errorPos = st.errorPos; break;
    case PE_SINGLE_Z: p.rc = A::ParseSingleUri(&p.uri, p.first(), &p.errorPos); break;
    case PE_SINGLE_EX: p.rc = A::ParseSingleUriEx(&p.uri, p.first(), p.afterLast(), &p.errorPos); break;
    case PE_SINGLE_EX_NULLEND: p.rc = A::ParseSingleUriEx(&p.uri, p.first(), nullptr, &p.errorPos); break;
    case PE_SINGLE_Z_NOERR: p.rc = A::ParseSingleUri(&p.uri, p.first(), nullptr); break;
    case PE_SINGLE_EX_NOERR: p.rc = A::ParseSingleUriEx(&p.uri, p.first(), p.afterLast(), nullptr); break;
    case PE_SINGLE_MM: p.mm = mm; p.rc = A::ParseSingleUriExMm(&p.uri, p.first(), p.afterLast(), &p.errorPos, mm ? &mm->mm : nullptr); break;
  }
  p.errorPosSet = p.errorPos != sentinel;
  if (!p.errorPosSet) p.errorPos = nullptr;
  p.live = true;  // members may always be passed to the free function (C03), also after failure
}

inline bool has_nul(const u32s &s) { return s.find((char32_t)0) != u32s::npos; }
inline bool all_narrow(const u32s &s) { for (char32_t c : s) if (c > 0xff) return false; return true; }

}  // namespace vf
