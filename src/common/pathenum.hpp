// Bounded-exhaustive domains for the path algebra (resolution, normalisation,
// reference creation): every base / reference / source text whose path has at most
// L segments over a small vocabulary of segment *classes* (plain, empty, ".", "..",
// and in the larger tier a segment with ':'), in every structural context (with and
// without scheme, authority, query). Sampling cannot leave a gap in these domains:
// what is enumerated is checked completely.
#pragma once
#include <set>
#include <string>
#include <vector>
#include "models.hpp"

namespace vf {

// all "/"-joined segment lists of length minLen..maxLen over V
inline std::vector<std::string> enum_joined(const std::vector<std::string> &V, int minLen, int maxLen) {
  // length 0 is represented by the caller (empty list), lists of length n >= 1 as joined text
  std::vector<std::string> out, level;
  for (auto &v : V) level.push_back(v);
  for (int n = 1; n <= maxLen; n++) {
    if (n >= minLen) for (auto &s : level) out.push_back(s);
    if (n == maxLen) break;
    std::vector<std::string> next;
    for (auto &s : level) for (auto &v : V) next.push_back(s + "/" + v);
    level.swap(next);
  }
  return out;
}

struct PathDomain {
  std::vector<std::string> bases;  // absolute URIs (scheme "s"), all base shapes
  std::vector<std::string> refs;   // references of all five kinds
  std::vector<std::string> abss;   // absolute URIs for (source, base) pairs: schemes s/t, authorities none/h/g
};

// vocabulary {a, "", ., .., b:c}; tier 0: base/source paths <= 2 segments, reference paths <= 4;
// tier 1: base/source paths <= 3 segments, reference paths <= 5
inline PathDomain path_domain(int tier) {
  std::vector<std::string> V = {"a", "", ".", "..", "b:c"};
  int LB = tier ? 3 : 2, LR = tier ? 5 : 4, LS = tier ? 3 : 2;
  PathDomain d;
  std::set<std::string> seen;
  auto add = [&](std::vector<std::string> &dst, const std::string &s) {
    if (!uriref_matcher().matches(s)) return;
    if (!seen.insert(s).second) return;
    dst.push_back(s);
  };
  std::vector<std::string> jb = enum_joined(V, 1, LB), jr = enum_joined(V, 1, LR), js = enum_joined(V, 1, LS);
  // bases
  for (const char *auth : {"", "//h"}) {
    for (const char *q : {"", "?q", "?"}) {
      std::string pre = std::string("s:") + auth;
      add(d.bases, pre + q);
      add(d.bases, pre + "/" + q);
      for (auto &p : jb) {
        add(d.bases, pre + "/" + p + q);
        if (!*auth) add(d.bases, pre + p + q);  // rootless
      }
    }
  }
  seen.clear();
  // references
  for (const char *tail : {"", "?", "#f"}) {
    add(d.refs, tail);                                    // empty path
    add(d.refs, std::string("/") + tail);
    for (auto &p : jr) { add(d.refs, p + tail); add(d.refs, "/" + p + tail); }
  }
  {
    std::vector<std::string> jn = enum_joined(V, 1, LB);
    for (const char *auth : {"//g", "//h", "//"}) {
      add(d.refs, auth);
      add(d.refs, std::string(auth) + "/");
      for (auto &p : jn) add(d.refs, std::string(auth) + "/" + p);
    }
    for (const char *sch : {"s:", "t:"}) {
      add(d.refs, sch);
      add(d.refs, std::string(sch) + "/");
      for (auto &p : jn) { add(d.refs, std::string(sch) + p); add(d.refs, std::string(sch) + "/" + p); }
      add(d.refs, std::string(sch) + "//g/a/..");
    }
  }
  seen.clear();
  // absolute URIs for (source, base) pairs
  for (const char *sch : {"s:", "t:"}) {
    for (const char *auth : {"", "//h", "//g", "//u@h:1"}) {
      if (sch[0] == 't' && auth[0] && auth[2] != 'h') continue;
      for (const char *q : {"", "?q", "?"}) {
        std::string pre = std::string(sch) + auth;
        add(d.abss, pre + q);
        add(d.abss, pre + "/" + q);
        for (auto &p : js) {
          add(d.abss, pre + "/" + p + q);
          if (!*auth) add(d.abss, pre + p + q);
        }
      }
    }
  }
  return d;
}

// shared driver: run check() over an enumerated list of cases, sharded; failing cases of an open known-finding class
// are counted and skipped exactly as in the generated search
template <class MakeCase>
inline Verdict enum_drive(uint64_t total, int shard, int nshards, Verdict (*check)(const Fields &), MakeCase make, Fields *failing) {
  for (uint64_t idx = (uint64_t)shard; idx < total; idx += (uint64_t)nshards) {
    Fields f = make(idx);
    note_case(f);
    Verdict v = check(f);
    if (v.kind == Verdict::DISCARD) continue;
    stats().evaluations++;
    if (v.kind == Verdict::FAIL) {
      if (!v.klass.empty() && known_open(v.klass)) { stats().excluded_known[v.klass]++; continue; }
      *failing = f;
      return v;
    }
  }
  return Verdict::pass();
}

}  // namespace vf
