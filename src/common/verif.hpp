// Core types shared by every harness and by the two engines (rapidcheck / libFuzzer).
// A harness never includes rapidcheck: the engine generates a *tape* of choices,
// the harness decodes the tape into an explicit Case (Fields) and checks it.
#pragma once
#include <cstdint>
#include <cstdio>
#include <cstdlib>
#include <cstring>
#include <clocale>
#include <map>
#include <string>
#include <unordered_map>
#include <unordered_set>
#include <utility>
#include <vector>

namespace vf {

using u32s = std::u32string;

// ---------------------------------------------------------------------------
// Tape: a finite sequence of 16-bit choices. Reading past the end yields 0, the
// "simplest" choice of every decoder, so truncating/zeroing the tape shrinks
// the case.
struct Tape {
  const uint16_t *p = nullptr;
  size_t n = 0, pos = 0;
  Tape() {}
  Tape(const uint16_t *p_, size_t n_) : p(p_), n(n_) {}
  uint32_t raw() { return pos < n ? p[pos++] : (pos++, 0u); }
  // uniform-ish integer in [0, k)
  uint32_t below(uint32_t k) {
    if (k <= 1) return 0;
    if (k <= 65536) return raw() % k;
    uint32_t hi = raw(), lo = raw();
    return ((hi << 16) | lo) % k;
  }
  int range(int lo, int hi) { return lo + (int)below((uint32_t)(hi - lo + 1)); }  // inclusive
  bool coin() { return below(2) == 1; }
  // true with probability num/den
  bool chance(uint32_t num, uint32_t den) { return below(den) < num; }
  bool exhausted() const { return pos >= n; }
  // weighted pick: returns index
  int weighted(std::initializer_list<int> w) {
    int tot = 0;
    for (int x : w) tot += x;
    int r = (int)below((uint32_t)tot), i = 0;
    for (int x : w) {
      if (r < x) return i;
      r -= x;
      i++;
    }
    return 0;
  }
  template <class T> const T &pick(const std::vector<T> &v) { return v[below((uint32_t)v.size())]; }
};

// ---------------------------------------------------------------------------
// Escaped text: printable ASCII except '\\' is literal, everything else is
// \xNN (<= 0xff) or \u{H..} (> 0xff). Used for case files and evidence samples.
inline std::string esc(const u32s &s) {
  std::string o;
  char b[16];
  for (char32_t c : s) {
    if (c >= 0x20 && c < 0x7f && c != '\\') o += (char)c;
    else if (c <= 0xff) { snprintf(b, sizeof b, "\\x%02X", (unsigned)c); o += b; }
    else { snprintf(b, sizeof b, "\\u{%X}", (unsigned)c); o += b; }
  }
  return o;
}
inline std::string esc(const std::string &s) {
  u32s w;
  for (unsigned char c : s) w += (char32_t)c;
  return esc(w);
}
inline u32s unesc32(const std::string &s) {
  u32s o;
  for (size_t i = 0; i < s.size();) {
    if (s[i] == '\\' && i + 3 < s.size() + 0 && s[i + 1] == 'x') {
      o += (char32_t)strtoul(s.substr(i + 2, 2).c_str(), nullptr, 16);
      i += 4;
    } else if (s[i] == '\\' && i + 2 < s.size() && s[i + 1] == 'u' && s[i + 2] == '{') {
      size_t e = s.find('}', i);
      o += (char32_t)strtoul(s.substr(i + 3, e - i - 3).c_str(), nullptr, 16);
      i = e + 1;
    } else {
      o += (char32_t)(unsigned char)s[i];
      i++;
    }
  }
  return o;
}
inline std::string unesc8(const std::string &s) {
  std::string o;
  for (char32_t c : unesc32(s)) o += (char)(unsigned char)(c & 0xff);
  return o;
}

// ---------------------------------------------------------------------------
// Fields: the explicit, engine-independent representation of one case.
struct Fields {
  std::vector<std::pair<std::string, std::string>> kv;  // values kept in escaped form
  void set(const std::string &k, const std::string &bytes) { kv.emplace_back(k, esc(bytes)); }
  void set32(const std::string &k, const u32s &cps) { kv.emplace_back(k, esc(cps)); }
  void seti(const std::string &k, long long v) { kv.emplace_back(k, std::to_string(v)); }
  const std::string *find(const std::string &k) const {
    for (auto &p : kv)
      if (p.first == k) return &p.second;
    return nullptr;
  }
  bool has(const std::string &k) const { return find(k) != nullptr; }
  std::string get(const std::string &k) const {
    auto *v = find(k);
    return v ? unesc8(*v) : std::string();
  }
  u32s get32(const std::string &k) const {
    auto *v = find(k);
    return v ? unesc32(*v) : u32s();
  }
  long long geti(const std::string &k, long long dflt = 0) const {
    auto *v = find(k);
    return v ? atoll(v->c_str()) : dflt;
  }
  std::string text() const {
    std::string o;
    for (auto &p : kv) { o += p.first; o += '='; o += p.second; o += '\n'; }
    return o;
  }
  static Fields parse(const std::string &t) {
    Fields f;
    size_t i = 0;
    while (i < t.size()) {
      size_t e = t.find('\n', i);
      if (e == std::string::npos) e = t.size();
      std::string line = t.substr(i, e - i);
      i = e + 1;
      if (line.empty() || line[0] == '#') continue;
      size_t q = line.find('=');
      if (q == std::string::npos) continue;
      f.kv.emplace_back(line.substr(0, q), line.substr(q + 1));
    }
    return f;
  }
};

inline uint64_t fnv64(const std::string &s) {
  uint64_t h = 1469598103934665603ull;
  for (unsigned char c : s) { h ^= c; h *= 1099511628211ull; }
  return h;
}

// ---------------------------------------------------------------------------
struct Verdict {
  enum Kind { PASS, FAIL, DISCARD } kind = PASS;
  std::string msg;    // why it failed
  std::string klass;  // id of the known-finding class the failing case belongs to ("" = none)
  static Verdict pass() { return Verdict(); }
  static Verdict fail(const std::string &m, const std::string &k = "") {
    Verdict v; v.kind = FAIL; v.msg = m; v.klass = k; return v;
  }
  static Verdict discard() { Verdict v; v.kind = DISCARD; return v; }
};

// ---------------------------------------------------------------------------
// Per-process statistics; dumped as JSON by the engine.
struct Stats {
  uint64_t evaluations = 0, discarded = 0, nontrivial_evals = 0, sub_evaluations = 0;
  std::unordered_set<uint64_t> nt_hashes;
  std::map<std::string, uint64_t> hist;
  std::map<std::string, uint64_t> excluded_known;
  std::map<std::string, uint64_t> relaxed;
  std::vector<std::string> first_samples, res_samples;
  uint64_t res_seen = 0, res_state = 88172645463325252ull;
  void hit(const std::string &k, uint64_t n = 1) { hist[k] += n; }
  void relax(const std::string &k) { relaxed[k]++; }
  // mark the current case (or a sub-case of it) as non-trivial; key identifies it for distinctness
  void nontrivial(const std::string &key, const std::string &sample) {
    nontrivial_evals++;
    if (!nt_hashes.insert(fnv64(key)).second) return;
    if (first_samples.size() < 5) { first_samples.push_back(sample); return; }
    res_seen++;
    // deterministic xorshift reservoir (no wall clock, no rand())
    res_state ^= res_state << 13; res_state ^= res_state >> 7; res_state ^= res_state << 17;
    if (res_samples.size() < 5) res_samples.push_back(sample);
    else if (res_state % res_seen < 5) res_samples[res_state % 5] = sample;
  }
};
Stats &stats();

// Set of open known-finding ids passed by the driver (--known a,b,c)
bool known_open(const std::string &id);

// ---------------------------------------------------------------------------
// What a harness provides.
struct Harness {
  const char *id;                       // "C06"
  Fields (*gen)(Tape &);                // decode a tape into a case
  Verdict (*check)(const Fields &);     // run the oracle on one case
  // optional exhaustive enumeration: calls check() on every member of shard i of n
  // and returns the first failure (or pass). tier: 0 quick, 1 thorough.
  Verdict (*enumerate)(int tier, int shard, int nshards, Fields *failing);
  // optional self test of the oracle (returns "" if fine)
  std::string (*selftest)();
  // optional (libFuzzer only): build a case directly from raw input bytes
  Fields (*from_bytes)(const uint8_t *, size_t);
};
extern const Harness HARNESS;  // defined by each harness TU

// Enumerators announce the case they are about to evaluate, so that a crash (sanitizer abort, guard-page fault) inside
// an enumeration leaves the case behind like a crash in the generated search does.
void note_case(const Fields &f);

// engine entry (rapidcheck or libFuzzer)
int engine_main(int argc, char **argv);

// ---------------------------------------------------------------------------
// vf_*: the library's own references to malloc/calloc/realloc/reallocarray/free
// are renamed to these (objcopy --redefine-sym), so calls the *library* makes to
// the C allocator are visible without touching the repository.
struct LibcLedger {
  uint64_t calls = 0;       // any vf_* entry
  uint64_t allocs = 0;      // successful allocations
  long outstanding = 0;     // live blocks obtained through vf_*
  std::unordered_map<void *, size_t> live;
  bool track = false;       // maintain `live` (costly; only where needed)
  uint64_t foreign_free = 0;
  // fault plan for the default manager: fail the k-th request (1-based), 0 = none
  uint64_t fail_at = 0, fail_from = 0, req = 0;
};
inline LibcLedger &libc_ledger() { static LibcLedger l; return l; }


// Runs a case with the process locale switched to C.UTF-8 (RFC 3986 character classes do not depend on the locale;
// <ctype.h>/<wctype.h> classification does, e.g. iswalnum(0xE9)). Restores "C" on scope exit.
struct LocaleArm {
  bool on;
  explicit LocaleArm(bool want) : on(want) { if (on && !setlocale(LC_ALL, "C.UTF-8")) on = false; if (on) stats().hit("locale=C.UTF-8"); }
  ~LocaleArm() { if (on) setlocale(LC_ALL, "C"); }
};

#define VF_FAIL(...)                                    \
  do {                                                  \
    char vf_buf_[1024];                                 \
    snprintf(vf_buf_, sizeof vf_buf_, __VA_ARGS__);     \
    return vf::Verdict::fail(vf_buf_);                  \
  } while (0)
#define VF_REQUIRE(cond, ...)                           \
  do {                                                  \
    if (!(cond)) VF_FAIL(__VA_ARGS__);                  \
  } while (0)

}  // namespace vf
