// rapidcheck engine: the only translation unit that includes rapidcheck.
// Modes:
//   --mode search  --out DIR --worker I           (RC_PARAMS supplies seed/max_success/max_size)
//   --mode replay  --case FILE                     exit 0 pass | 1 fail | 3 fail-but-known-class
//   --mode enum    --tier quick|thorough --shard I --nshards N --out DIR --worker I
//   --mode selftest
// common: --known id1,id2   (open known findings: failing cases of those classes are excluded+counted)
#include <rapidcheck.h>

#include <fcntl.h>
#include <sys/mman.h>
#include <sys/stat.h>
#include <unistd.h>

#include <fstream>
#include <set>
#include <sstream>

#include "verif.hpp"
#include "vfalloc.inc"

namespace vf {
static Stats g_stats;
Stats &stats() { return g_stats; }
static std::set<std::string> g_known;
bool known_open(const std::string &id) { return g_known.count(id) != 0; }
}  // namespace vf

using namespace vf;

static std::string jstr(const std::string &s) {
  std::string o = "\"";
  char b[8];
  for (unsigned char c : s) {
    if (c == '"' || c == '\\') { o += '\\'; o += (char)c; }
    else if (c < 0x20 || c >= 0x7f) { snprintf(b, sizeof b, "\\u%04x", c); o += b; }
    else o += (char)c;
  }
  return o + "\"";
}
static std::string jmap(const std::map<std::string, uint64_t> &m) {
  std::string o = "{";
  bool first = true;
  for (auto &p : m) {
    if (!first) o += ",";
    first = false;
    o += jstr(p.first) + ":" + std::to_string(p.second);
  }
  return o + "}";
}
static std::string jlist(const std::vector<std::string> &v) {
  std::string o = "[";
  for (size_t i = 0; i < v.size(); i++) { if (i) o += ","; o += jstr(v[i]); }
  return o + "]";
}

static std::string g_out = ".", g_worker = "0";
static char *g_cur = nullptr;  // MAP_SHARED slot holding the case under evaluation (survives aborts)
static const size_t CUR_SZ = 1 << 16;

static void cur_open() {
  std::string p = g_out + "/w" + g_worker + ".cur";
  int fd = open(p.c_str(), O_RDWR | O_CREAT | O_TRUNC, 0644);
  if (fd < 0) return;
  if (ftruncate(fd, CUR_SZ) != 0) { close(fd); return; }
  void *m = mmap(nullptr, CUR_SZ, PROT_READ | PROT_WRITE, MAP_SHARED, fd, 0);
  close(fd);
  if (m != MAP_FAILED) g_cur = (char *)m;
}
static void cur_set(const std::string &t) {
  if (!g_cur) return;
  size_t n = t.size() < CUR_SZ - 1 ? t.size() : CUR_SZ - 1;
  memcpy(g_cur, t.data(), n);
  g_cur[n] = 0;
}
void vf::note_case(const Fields &f) { cur_set(f.text()); }
static void write_file(const std::string &path, const std::string &t) {
  std::ofstream f(path, std::ios::binary | std::ios::trunc);
  f << t;
}
static void dump_stats(const std::string &status, const std::string &failmsg) {
  Stats &s = stats();
  std::ostringstream o;
  o << "{\"status\":" << jstr(status) << ",\"failmsg\":" << jstr(failmsg)
    << ",\"evaluations\":" << s.evaluations << ",\"sub_evaluations\":" << s.sub_evaluations
    << ",\"discarded\":" << s.discarded << ",\"nontrivial_evals\":" << s.nontrivial_evals
    << ",\"distinct_nontrivial_local\":" << s.nt_hashes.size() << ",\"hist\":" << jmap(s.hist)
    << ",\"excluded_known\":" << jmap(s.excluded_known) << ",\"relaxed\":" << jmap(s.relaxed)
    << ",\"samples_first\":" << jlist(s.first_samples) << ",\"samples_reservoir\":" << jlist(s.res_samples) << "}\n";
  write_file(g_out + "/w" + g_worker + ".json", o.str());
  std::ofstream h(g_out + "/w" + g_worker + ".hashes", std::ios::binary | std::ios::trunc);
  for (uint64_t x : s.nt_hashes) h.write((const char *)&x, 8);
}

// Evaluate one explicit case through the harness, applying the known-finding policy.
// returns 0 pass/excluded, 1 fail (unknown), 2 discard
static int eval_case(const Fields &f, std::string *msg, std::string *klass) {
  Verdict v = HARNESS.check(f);
  if (v.kind == Verdict::DISCARD) { stats().discarded++; return 2; }
  stats().evaluations++;
  if (f.has("long")) stats().hit("long_mode_cases");
  if (v.kind == Verdict::PASS) return 0;
  if (msg) *msg = v.msg;
  if (klass) *klass = v.klass;
  if (!v.klass.empty() && known_open(v.klass)) {
    stats().excluded_known[v.klass]++;
    return 0;
  }
  return 1;
}

static std::string read_file(const std::string &p) {
  std::ifstream f(p, std::ios::binary);
  std::stringstream ss;
  ss << f.rdbuf();
  return ss.str();
}

int vf::engine_main(int argc, char **argv) {
  std::string mode = "search", casefile, tier = "quick";
  int shard = 0, nshards = 1;
  for (int i = 1; i < argc; i++) {
    std::string a = argv[i];
    auto next = [&]() -> std::string { return i + 1 < argc ? argv[++i] : ""; };
    if (a == "--mode") mode = next();
    else if (a == "--out") g_out = next();
    else if (a == "--worker") g_worker = next();
    else if (a == "--case") casefile = next();
    else if (a == "--tier") tier = next();
    else if (a == "--shard") shard = atoi(next().c_str());
    else if (a == "--nshards") nshards = atoi(next().c_str());
    else if (a == "--known") {
      std::string l = next();
      size_t p = 0;
      while (p <= l.size()) {
        size_t e = l.find(',', p);
        if (e == std::string::npos) e = l.size();
        if (e > p) g_known.insert(l.substr(p, e - p));
        p = e + 1;
      }
    }
  }
  if (HARNESS.selftest) {
    std::string e = HARNESS.selftest();
    if (!e.empty()) {
      fprintf(stderr, "ORACLE-ERROR %s: %s\n", HARNESS.id, e.c_str());
      return 4;
    }
  }
  if (mode == "selftest") return 0;

  if (mode == "replay") {
    Fields f = Fields::parse(read_file(casefile));
    std::string msg, klass;
    Verdict v = HARNESS.check(f);
    if (v.kind == Verdict::PASS) { printf("PASS\n"); return 0; }
    if (v.kind == Verdict::DISCARD) { printf("DISCARD\n"); return 0; }
    printf("FAIL class=%s: %s\n", v.klass.empty() ? "-" : v.klass.c_str(), v.msg.c_str());
    if (!v.klass.empty() && known_open(v.klass)) return 3;
    return 1;
  }

  mkdir(g_out.c_str(), 0755);
  cur_open();

  if (mode == "enum") {
    if (!HARNESS.enumerate) { dump_stats("ok", ""); return 0; }
    Fields failing;
    Verdict v = HARNESS.enumerate(tier == "thorough" ? 1 : 0, shard, nshards, &failing);
    if (v.kind == Verdict::FAIL) {
      write_file(g_out + "/w" + g_worker + ".fail", "# " + v.msg + "\n" + failing.text());
      dump_stats("fail", v.msg);
      return 1;
    }
    dump_stats("ok", "");
    return 0;
  }

  // search
  std::string lastmsg;
  // shrinking budget: after the first failure at most VF_SHRINK_LIMIT further candidates are evaluated (a count, not a
  // clock); later candidates are answered "passes" unevaluated, so rapidcheck stops and the last real failure - already
  // saved - is the reported case. Harnesses whose cases are expensive (threads) would otherwise shrink for minutes.
  long shrinkLimit = getenv("VF_SHRINK_LIMIT") ? atol(getenv("VF_SHRINK_LIMIT")) : 4000, afterFailure = -1;
  bool ok = rc::check(std::string(HARNESS.id), [&]() {
    if (afterFailure >= 0 && ++afterFailure > shrinkLimit) return;
    // up to 12*size choices. Elements are uniform over a bit width that grows with the size and is capped at the
    // nominal size: rapidcheck's integer generator is only uniform up to its nominal size (100); asked for more
    // (the container passes 12*size down) it returns values that are mostly one-bits, which skews every `% k`.
    auto elem = rc::gen::withSize([](int size) { return rc::gen::resize(size < 100 ? size : 100, rc::gen::arbitrary<uint16_t>()); });
    auto tapev = *rc::gen::scale(12.0, rc::gen::container<std::vector<uint16_t>>(elem));
    Tape t(tapev.data(), tapev.size());
    Fields f = HARNESS.gen(t);
    cur_set(f.text());
    std::string msg, klass;
    int r = eval_case(f, &msg, &klass);
    if (r == 2) RC_DISCARD("discard");
    if (r == 1) {
      if (afterFailure < 0) afterFailure = 0;
      lastmsg = msg;
      write_file(g_out + "/w" + g_worker + ".fail", "# " + msg + "\n" + f.text());
      RC_FAIL(msg);
    }
  });
  dump_stats(ok ? "ok" : "fail", ok ? "" : lastmsg);
  return ok ? 0 : 1;
}

int main(int argc, char **argv) { return vf::engine_main(argc, argv); }
