// Observers: snapshots of UriUri objects, well-formedness, bit-for-bit freezes,
// the recording/injecting memory manager, guard-page buffers, and the counters
// behind the redirected libc allocator references of the library (vf_*).
#pragma once
#include <sys/mman.h>
#include <unistd.h>

#include <cerrno>
#include <optional>
#include <unordered_map>

#include "api.hpp"
#include "models.hpp"

namespace vf {

// ---------------------------------------------------------------------------
template <class A> inline std::string range_str(const typename A::Range &r) {
  return narrow<typename A::Ch>(r.first, r.afterLast);
}

struct Snap {
  std::optional<std::string> scheme, user, host, port, query, frag;
  int hostKind = HK_NONE;
  std::array<uint8_t, 16> ip{};
  bool absolutePath = false, owner = false, hasSegs = false;
  std::vector<std::string> segs;
  bool narrowOk = true;  // false if some character did not fit 0..255
  bool hasAuth() const { return hostKind != HK_NONE; }
  std::string pathText() const {
    std::string o;
    if (absolutePath || (hasSegs && hasAuth())) o += '/';
    o += join_slash(segs);
    return o;
  }
  bool sameAs(const Snap &b, bool ignoreOwner = true) const {
    return scheme == b.scheme && user == b.user && hostKind == b.hostKind &&
           (hostKind == HK_IP4 ? (memcmp(ip.data(), b.ip.data(), 4) == 0 && host == b.host)
            : hostKind == HK_IP6 ? ip == b.ip
                                 : host == b.host) &&
           port == b.port && query == b.query && frag == b.frag && absolutePath == b.absolutePath &&
           hasSegs == b.hasSegs && segs == b.segs && (ignoreOwner || owner == b.owner);
  }
  std::string describe() const {
    auto o = [](const std::optional<std::string> &x) { return x ? "'" + esc(*x) + "'" : std::string("-"); };
    std::string s = "scheme=" + o(scheme) + " user=" + o(user) + " host=" + o(host) + " kind=" + std::to_string(hostKind) +
                    " port=" + o(port) + " abs=" + std::to_string(absolutePath) + " segs=[";
    for (size_t i = 0; i < segs.size(); i++) { if (i) s += ","; s += "'" + esc(segs[i]) + "'"; }
    s += hasSegs ? "]" : "]~";
    s += " query=" + o(query) + " frag=" + o(frag);
    return s;
  }
};

template <class A> Snap snapshot(const typename A::Uri &u) {
  using Ch = typename A::Ch;
  Snap s;
  auto opt = [&](const typename A::Range &r) -> std::optional<std::string> {
    if (r.first == nullptr) return std::nullopt;
    if (!narrowable<Ch>(r.first, r.afterLast)) s.narrowOk = false;
    return range_str<A>(r);
  };
  s.scheme = opt(u.scheme);
  s.user = opt(u.userInfo);
  s.host = opt(u.hostText);
  s.port = opt(u.portText);
  s.query = opt(u.query);
  s.frag = opt(u.fragment);
  if (u.hostData.ip4) { s.hostKind = HK_IP4; memcpy(s.ip.data(), u.hostData.ip4->data, 4); }
  else if (u.hostData.ip6) { s.hostKind = HK_IP6; memcpy(s.ip.data(), u.hostData.ip6->data, 16); }
  else if (u.hostData.ipFuture.first) s.hostKind = HK_FUT;
  else if (u.hostText.first) s.hostKind = HK_REG;
  s.absolutePath = u.absolutePath != 0;
  s.owner = u.owner != 0;
  for (auto *w = u.pathHead; w; w = w->next) {
    s.hasSegs = true;
    if (!narrowable<Ch>(w->text.first, w->text.afterLast)) s.narrowOk = false;
    s.segs.push_back(range_str<A>(w->text));
  }
  return s;
}

// Structural invariants of C02/C07. Returns "" if fine.
template <class A> std::string wellformed(const typename A::Uri &u) {
  auto rng = [](const typename A::Range &r, const char *n) -> std::string {
    if ((r.first == nullptr) != (r.afterLast == nullptr)) return std::string(n) + ": one end NULL";
    if (r.first && r.first > r.afterLast) return std::string(n) + ": first > afterLast";
    return "";
  };
  std::string e;
  if (!(e = rng(u.scheme, "scheme")).empty()) return e;
  if (!(e = rng(u.userInfo, "userInfo")).empty()) return e;
  if (!(e = rng(u.hostText, "hostText")).empty()) return e;
  if (!(e = rng(u.hostData.ipFuture, "ipFuture")).empty()) return e;
  if (!(e = rng(u.portText, "portText")).empty()) return e;
  if (!(e = rng(u.query, "query")).empty()) return e;
  if (!(e = rng(u.fragment, "fragment")).empty()) return e;
  if ((u.pathHead == nullptr) != (u.pathTail == nullptr)) return "pathHead/pathTail: one NULL";
  const typename A::Seg *last = nullptr;
  size_t n = 0;
  for (auto *w = u.pathHead; w; w = w->next) {
    if (!(e = rng(w->text, "segment")).empty()) return e;
    if (w->text.first == nullptr) return "segment with NULL text";
    last = w;
    if (++n > 100000) return "path list cyclic";
  }
  if (last != u.pathTail) return "pathTail is not the last node";
  int kinds = (u.hostData.ip4 ? 1 : 0) + (u.hostData.ip6 ? 1 : 0) + (u.hostData.ipFuture.first ? 1 : 0);
  if (kinds > 1) return "more than one of ip4/ip6/ipFuture";
  if (u.hostData.ipFuture.first &&
      (u.hostText.first != u.hostData.ipFuture.first || u.hostText.afterLast != u.hostData.ipFuture.afterLast))
    return "ipFuture range != hostText range";
  if ((u.hostData.ip4 || u.hostData.ip6) && !u.hostText.first) return "ip host without hostText";
  bool host = u.hostText.first || kinds;
  if (host && u.absolutePath) return "host coexists with absolutePath";
  if (!host && (u.userInfo.first || u.portText.first)) return "userinfo/port without host";
  return "";
}

// Raw bytes of the struct, of every path node, of IP data and of every referenced
// text range: equality before/after a call means "bit-for-bit unchanged".
template <class A> std::string freeze(const typename A::Uri &u) {
  using Ch = typename A::Ch;
  std::string o((const char *)&u, sizeof u);
  auto txt = [&](const typename A::Range &r) {
    if (r.first && r.afterLast >= r.first) o.append((const char *)r.first, (size_t)(r.afterLast - r.first) * sizeof(Ch));
    o += '|';
  };
  txt(u.scheme); txt(u.userInfo); txt(u.hostText); txt(u.hostData.ipFuture); txt(u.portText); txt(u.query); txt(u.fragment);
  if (u.hostData.ip4) o.append((const char *)u.hostData.ip4, 4);
  if (u.hostData.ip6) o.append((const char *)u.hostData.ip6, 16);
  for (auto *w = u.pathHead; w; w = w->next) { o.append((const char *)w, sizeof *w); txt(w->text); }
  return o;
}

template <class A> bool to_string(const typename A::Uri &u, std::string *out, bool *narrowOk = nullptr) {
  using Ch = typename A::Ch;
  int n = 0;
  if (A::ToStringCharsRequired(&u, &n) != 0) return false;
  std::vector<Ch> buf((size_t)n + 1);
  memset(buf.data(), 0xA5, buf.size() * sizeof(Ch));  // every byte non-zero: a character written only in part stays visible
  int w = 0;
  if (A::ToString(buf.data(), &u, n + 1, &w) != 0) return false;
  if (w != n + 1) return false;
  if (buf[(size_t)n] != 0) return false;  // not terminated where the reported length says
  if (narrowOk) *narrowOk = narrowable<Ch>(buf.data(), buf.data() + n);
  *out = narrow<Ch>(buf.data(), buf.data() + n);
  return true;
}

// ---------------------------------------------------------------------------
// LedgerMM: complete memory manager that records every request, refuses frees of
// pointers it did not hand out (foreign / double / interior) and follows a fault
// plan. Backed by the real allocator so ASan still sees misuse of the blocks.
struct LedgerMM {
  UriMemoryManager mm;
  std::unordered_map<void *, size_t> live;
  uint64_t requests = 0, failed = 0, frees = 0;
  uint64_t bad_free = 0;          // free/realloc of a pointer that is not outstanding here
  std::string bad_free_what;
  // fault plan
  uint64_t fail_at = 0;           // fail exactly the k-th request (1-based); 0 = off
  uint64_t fail_from = 0;         // fail every request from the k-th on; 0 = off
  uint64_t fail_mask = 0;         // bit i set => request i+1 fails (first 64 requests)
  size_t refuse_above = 0;        // refuse sizes above this (0 = no limit)
  const char *tag = "A";

  LedgerMM() {
    mm.malloc = &s_malloc; mm.calloc = &s_calloc; mm.realloc = &s_realloc;
    mm.reallocarray = &s_reallocarray; mm.free = &s_free; mm.userData = this;
  }
  LedgerMM(const LedgerMM &) = delete;
  void reset_plan() { fail_at = fail_from = fail_mask = 0; }
  void reset_counts() { requests = failed = frees = 0; }
  bool should_fail() {
    requests++;
    bool f = (fail_at && requests == fail_at) || (fail_from && requests >= fail_from) ||
             (requests <= 64 && (fail_mask >> (requests - 1)) & 1);
    if (f) failed++;
    return f;
  }
  static LedgerMM *self(UriMemoryManager *m) { return (LedgerMM *)m->userData; }
  void *do_alloc(size_t sz, bool zero) {
    if (should_fail()) { errno = ENOMEM; return nullptr; }
    if (refuse_above && sz > refuse_above) { errno = ENOMEM; return nullptr; }
    void *p = zero ? ::calloc(1, sz ? sz : 1) : ::malloc(sz ? sz : 1);
    if (p) live[p] = sz;
    return p;
  }
  static void *s_malloc(UriMemoryManager *m, size_t sz) { return self(m)->do_alloc(sz, false); }
  static void *s_calloc(UriMemoryManager *m, size_t n, size_t sz) {
    size_t tot = n * sz;
    if (n && tot / n != sz) { self(m)->requests++; errno = ENOMEM; return nullptr; }
    return self(m)->do_alloc(tot, true);
  }
  static void *s_realloc(UriMemoryManager *m, void *p, size_t sz) {
    LedgerMM *L = self(m);
    if (!p) return L->do_alloc(sz, false);
    auto it = L->live.find(p);
    if (it == L->live.end()) { L->bad_free++; L->bad_free_what = "realloc of foreign pointer"; return nullptr; }
    if (sz == 0) { L->frees++; L->live.erase(it); ::free(p); return nullptr; }
    if (L->should_fail()) { errno = ENOMEM; return nullptr; }
    void *q = ::realloc(p, sz);
    if (q) { L->live.erase(p); L->live[q] = sz; }
    return q;
  }
  static void *s_reallocarray(UriMemoryManager *m, void *p, size_t n, size_t sz) {
    size_t tot = n * sz;
    if (n && tot / n != sz) { self(m)->requests++; errno = ENOMEM; return nullptr; }
    return s_realloc(m, p, tot);
  }
  static void s_free(UriMemoryManager *m, void *p) {
    LedgerMM *L = self(m);
    if (!p) return;
    auto it = L->live.find(p);
    if (it == L->live.end()) {
      L->bad_free++;
      L->bad_free_what = "free of pointer not outstanding in this manager (foreign/double/interior)";
      return;  // not forwarded
    }
    L->frees++;
    L->live.erase(it);
    ::free(p);
  }
  size_t outstanding() const { return live.size(); }
  // release whatever is still live (so that a reported leak does not also trip LeakSanitizer)
  void drain() {
    for (auto &p : live) ::free(p.first);
    live.clear();
  }
  ~LedgerMM() { drain(); }
};

// ---------------------------------------------------------------------------
// GuardBuf: a reusable mapping with PROT_NONE pages on both sides. place_right(n)
// returns a pointer such that p+n is the first byte of the right guard page.
struct GuardBuf {
  char *base = nullptr;
  size_t pages, ps;
  explicit GuardBuf(size_t pages_ = 64) : pages(pages_) {
    ps = (size_t)sysconf(_SC_PAGESIZE);
    void *m = mmap(nullptr, (pages + 2) * ps, PROT_READ | PROT_WRITE, MAP_PRIVATE | MAP_ANONYMOUS, -1, 0);
    if (m == MAP_FAILED) abort();
    base = (char *)m;
    mprotect(base, ps, PROT_NONE);
    mprotect(base + (pages + 1) * ps, ps, PROT_NONE);
  }
  ~GuardBuf() { if (base) munmap(base, (pages + 2) * ps); }
  GuardBuf(const GuardBuf &) = delete;
  size_t capacity() const { return pages * ps; }
  char *right(size_t nbytes) { return base + (pages + 1) * ps - nbytes; }  // flush against right guard
  char *left() { return base + ps; }                                       // flush against left guard
  template <class C> C *right_chars(size_t nchars) { return (C *)right(nchars * sizeof(C)); }
  void readonly(bool ro) { mprotect(base + ps, pages * ps, ro ? PROT_READ : (PROT_READ | PROT_WRITE)); }
  void fill(unsigned char v) { memset(base + ps, v, pages * ps); }
};

}  // namespace vf
