// libFuzzer engine: the same decoders and oracles as the rapidcheck engine, driven
// by coverage-guided mutation of the choice tape (structure-aware) or, when the
// harness offers it, of the raw input bytes. A failing case traps after the
// explicit case has been written (a trap skips atexit and shrinking).
//   VF_KNOWN=id1,id2     open known findings (failing cases of those classes are ignored)
//   VF_DUMP_CASE=path    write the explicit case decoded from the input to path before checking it
#include <cstdint>
#include <cstdio>
#include <unistd.h>
#include <cstdlib>
#include <set>
#include <string>
#include <vector>

#include "verif.hpp"
#include "vfalloc.inc"

namespace vf {
static Stats g_stats;
Stats &stats() { return g_stats; }
static std::set<std::string> g_known;
static bool g_init = false;
static void init() {
  if (g_init) return;
  g_init = true;
  const char *k = getenv("VF_KNOWN");
  if (k) {
    std::string l = k;
    size_t p = 0;
    while (p <= l.size()) {
      size_t e = l.find(',', p);
      if (e == std::string::npos) e = l.size();
      if (e > p) g_known.insert(l.substr(p, e - p));
      p = e + 1;
    }
  }
  if (HARNESS.selftest) {
    std::string e = HARNESS.selftest();
    if (!e.empty()) { fprintf(stderr, "ORACLE-ERROR %s: %s\n", HARNESS.id, e.c_str()); _exit(4); }
  }
}
bool known_open(const std::string &id) { return g_known.count(id) != 0; }
int engine_main(int, char **) { return 0; }
void note_case(const Fields &) {}
}  // namespace vf

using namespace vf;

extern "C" int LLVMFuzzerTestOneInput(const uint8_t *data, size_t size) {
  init();
  Fields f;
  if (HARNESS.from_bytes && size >= 1 && (data[0] & 1)) {
    f = HARNESS.from_bytes(data + 1, size - 1);
  } else {
    size_t off = HARNESS.from_bytes ? 1 : 0;
    if (size < off) off = size;
    std::vector<uint16_t> tape((size - off) / 2);
    for (size_t i = 0; i < tape.size(); i++) tape[i] = (uint16_t)(data[off + 2 * i] | (data[off + 2 * i + 1] << 8));
    Tape t(tape.data(), tape.size());
    f = HARNESS.gen(t);
  }
  const char *dump = getenv("VF_DUMP_CASE");
  if (dump) { FILE *o = fopen(dump, "w"); if (o) { std::string s = f.text(); fwrite(s.data(), 1, s.size(), o); fclose(o); } }
  g_stats = Stats();  // nothing may leak between iterations
  Verdict v = HARNESS.check(f);
  if (v.kind == Verdict::FAIL && !(!v.klass.empty() && known_open(v.klass))) {
    fprintf(stderr, "VF-FAIL %s: %s\n%s", HARNESS.id, v.msg.c_str(), f.text().c_str());
    fflush(stderr);
    __builtin_trap();
  }
  return 0;
}
