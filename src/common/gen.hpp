// Shared generators (DESIGN.md section 3). Everything is *constructed* from the
// tape; no rejection sampling. A zero tape yields the simplest member of each
// domain, so tape shrinking shrinks the case.
#pragma once
#include <string>
#include <vector>
#include "verif.hpp"

namespace vf {

// Long mode: one case in sixteen multiplies run lengths and segment counts by eight (texts of several hundred
// characters, paths of up to ~50 segments), so that the length-dependent parts (segment lists, recursion depth, size
// arithmetic) are not only ever seen on short inputs. Decided by the first tape value of a case; 0 = normal.
inline int &g_scale() { static int s = 1; return s; }
inline int &g_huge_left() { static int n = 0; return n; }  // how many 2^16-sized segments the current case may still get
struct LongMode {
  // allowHuge: the harness can afford one segment of 2^16 + 1..3 characters now and then (path algebra: C06, C09, C10)
  explicit LongMode(Tape &t, bool allowHuge = false) { g_scale() = t.chance(15, 16) ? 1 : 8; g_huge_left() = (allowHuge && g_scale() > 1) ? 1 : 0; }
  ~LongMode() { g_scale() = 1; g_huge_left() = 0; }
  bool on() const { return g_scale() != 1; }
};

inline const char *UNRESERVED_EXTRA() { return "-._~"; }
inline const char *SUBDELIMS() { return "!$&'()*+,;="; }

inline char g_alpha(Tape &t) {
  static const char a[] = "abcdefghijklmnopqrstuvwxyzABCDEFGHIJKLMNOPQRSTUVWXYZ";
  // small letters first so that 0 => 'a'
  return a[t.below(t.chance(3, 4) ? 8 : 52)];
}
inline char g_digit(Tape &t) { return (char)('0' + t.below(10)); }
inline char g_hex(Tape &t) { return "0123456789abcdefABCDEF"[t.below(22)]; }
inline std::string g_pct(Tape &t) {
  static const std::vector<std::string> common = {"%41", "%61", "%7e", "%7E", "%2f", "%2F", "%3a", "%3A", "%2e", "%2E",
                                                  "%c3%A4", "%20", "%25", "%00", "%5b", "%40"};
  if (t.chance(2, 3)) return t.pick(common);
  std::string s = "%";
  s += g_hex(t); s += g_hex(t);
  return s;
}
inline char g_unreserved(Tape &t) {
  switch (t.weighted({6, 2, 1})) {
    case 0: return g_alpha(t);
    case 1: return g_digit(t);
    default: return UNRESERVED_EXTRA()[t.below(4)];
  }
}
inline char g_subdelim(Tape &t) { return SUBDELIMS()[t.below(11)]; }

// run of characters from: unreserved / pct / sub-delims / extra literal characters
inline std::string g_run(Tape &t, int maxLen, const char *extra, bool allowPct = true) {
  std::string s;
  int n = t.range(0, maxLen * g_scale());
  size_t nx = strlen(extra);
  for (int i = 0; i < n; i++) {
    switch (t.weighted({8, allowPct ? 2 : 0, 2, nx ? 2 : 0})) {
      case 0: s += g_unreserved(t); break;
      case 1: s += g_pct(t); break;
      case 2: s += g_subdelim(t); break;
      default: s += extra[t.below((uint32_t)nx)];
    }
  }
  return s;
}

inline std::string g_scheme(Tape &t) {
  static const std::vector<std::string> pool = {"s", "http", "HTTP", "t", "a+b-c.d", "File", "x1", "Z", "file", "https", "urn", "mailto", "URL", "url", "javascript", "data"};  // incl. names software special-cases
  if (t.chance(3, 4)) return t.pick(pool);
  std::string s(1, g_alpha(t));
  int n = t.range(0, 4);
  for (int i = 0; i < n; i++) {
    switch (t.weighted({5, 2, 1})) {
      case 0: s += g_alpha(t); break;
      case 1: s += g_digit(t); break;
      default: s += "+-."[t.below(3)];
    }
  }
  return s;
}

inline std::string g_dec_octet(Tape &t) {
  static const int v[] = {0, 1, 9, 10, 99, 100, 127, 199, 200, 249, 250, 255, 25, 26, 2, 192, 168, 172, 16, 224};
  if (t.chance(2, 3)) return std::to_string(v[t.below(20)]);
  return std::to_string(t.below(256));
}
inline std::string g_ipv4(Tape &t) {
  return g_dec_octet(t) + "." + g_dec_octet(t) + "." + g_dec_octet(t) + "." + g_dec_octet(t);
}
inline std::string g_h16(Tape &t) {
  static const std::vector<std::string> pool = {"0", "1", "f", "F", "00", "ab", "AB", "123", "0abc", "FFFF", "ffff", "dead", "0000"};
  if (t.chance(2, 3)) return t.pick(pool);
  std::string s;
  int n = t.range(1, 4);
  for (int i = 0; i < n; i++) s += g_hex(t);
  return s;
}
// a valid IPv6address per the nine alternatives
inline std::string g_ipv6_valid(Tape &t) {
  // one literal in eight comes from the ranges that software likes to special-case (loopback, unspecified, IPv4-mapped and
  // -compatible, NAT64, 6to4, Teredo, link-local, multicast, documentation)
  if (t.chance(1, 8)) {
    static const std::vector<std::string> known = {"::1", "::", "::ffff:1.2.3.4", "::ffff:c000:221", "::1.2.3.4", "64:ff9b::c000:221", "64:ff9b::192.0.2.33", "64:FF9B::1",
                                                   "2002:c000:221::1", "2001:0:4136:e378:8000:63bf:3fff:fdd2", "fe80::1", "FE80::a:b", "ff02::1", "ff02::fb", "2001:db8::1", "2001:DB8:0:0:8:800:200C:417A",
                                                   "100::", "fc00::1", "0:0:0:0:0:ffff:a00:1", "0:0:0:0:0:0:0:0"};
    return t.pick(known);
  }
  bool v4tail = t.chance(1, 4);
  int total = v4tail ? 6 : 8;  // number of h16 groups without compression
  auto groups = [&](int n) { std::string s; for (int i = 0; i < n; i++) { if (i) s += ':'; s += g_h16(t); } return s; };
  std::string tail = v4tail ? g_ipv4(t) : std::string();
  if (t.chance(1, 3)) {  // no compression
    std::string s = groups(total);
    if (v4tail) s += ":" + tail;
    return s;
  }
  // "::" replaces at least one group
  int keep = t.range(0, total - 1);
  int left = t.range(0, keep), right = keep - left;
  std::string s = groups(left) + "::" + groups(right);
  if (v4tail) { if (right) s += ":"; s += tail; }
  return s;
}
inline std::string g_ipvfuture(Tape &t) {
  std::string s(1, t.coin() ? 'v' : 'V');
  int n = t.range(1, 3);
  for (int i = 0; i < n; i++) s += g_hex(t);
  s += '.';
  int m = t.range(1, 6);
  for (int i = 0; i < m; i++) {
    switch (t.weighted({6, 2, 1})) {
      case 0: s += g_unreserved(t); break;
      case 1: s += g_subdelim(t); break;
      default: s += ':';
    }
  }
  return s;
}
// host text as it appears in the URI (with brackets for literals); kind: 1 reg 2 ip4 3 ip6 4 future
inline std::string g_host(Tape &t, int *kind = nullptr) {
  static const std::vector<std::string> regs = {"h", "example.com", "EXAMPLE.org", "Host", "a.b", "256.1.1.1", "01.2.3.4",
                                                "1.2.3", "1.2.3.4.5", "1.2.3.4a", "ex%41mple", "ex%c3%a4", "h%3a", "x-y_z~", "v1.a", "vF.x",
                                                "%31.2.3.4", "1%2E2.3.4", "10.0.0.%32%35%35", "%32%35%36.1.1.1",  // dotted quads only after percent-decoding
                                                "%3192.168.100.200", "%32%35%35.255.255.255", "%31%32%37.%30.%30.%31", "%31%2E%32%2E%33%2E%34", "0.0.0.%30", "1.2.3.%34", "%31%30.20.30.40",  // ... of every length from 7 to 15
                                                "localhost", "LOCALHOST", "locations", "localhos", "localhost.", "%20Host", "a%2FB", "%41", "%7e", "%7b",
                                                // registered names that inet_aton / browsers read as IPv4, trailing dots, IDNA look-alikes
                                                "0x7f.0.0.1", "0x7F.1", "0177.0.0.1", "127.1", "2130706433", "0x7f000001", "1.2.3.0x4", "1.2.3.4.", "example.com.", "1.2.3.04", "xn--bcher-kva.example", "a..b", "-", "1.2.3.4%2e"};  // names software special-cases; a capital right behind a kept escape; one lone escape
  int k = t.weighted({6, 2, 3, 3, 1});
  int kk = 1;
  std::string s;
  if (g_scale() > 1 && t.chance(1, 10)) {  // long mode: a registered name of about 1024 / 4096 characters, clean or with one capital
    static const int lens[] = {1023, 1024, 1025, 4096, 96, 97};
    s = std::string((size_t)lens[t.below(6)], 'h');
    if (t.coin()) s[s.size() - 2] = 'H';
    if (kind) *kind = 1;
    return s;
  }
  switch (k) {
    case 0: s = t.chance(3, 4) ? t.pick(regs) : g_run(t, 8, "", true); kk = 1; break;
    case 1: s = ""; kk = 1; break;
    case 2: s = g_ipv4(t); kk = 2; break;
    case 3: s = "[" + g_ipv6_valid(t) + "]"; kk = 3; break;
    default: s = "[" + g_ipvfuture(t) + "]"; kk = 4;
  }
  if (kind) *kind = kk;
  return s;
}
inline std::string g_userinfo(Tape &t) {
  static const std::vector<std::string> pool = {"u", "", "user:pass", "u%41", "%7euser", ":", "a:b:c", "U;x=1",
                                                "1.2.3.4", "1.2.3.4:80", "1.2.3.4:8%30", "10.0.0.1:", "h:80", "example.com:8080%41", "v1.a:1", "%31.2.3.4:5%35"};  // user info that reads like host[:port] until the '@' arrives
  if (t.chance(3, 4)) return t.pick(pool);
  return g_run(t, 6, ":", true);
}
inline std::string g_port(Tape &t) {
  static const std::vector<std::string> pool = {"80", "", "0", "8080", "65536", "007", "1", "4294967295", "4294967296", "12345678901", "99999999999999999999"};
  return t.pick(pool);
}
struct GenAuth { bool hasUser = false; std::string user, host; bool hasPort = false; std::string port; int hostKind = 1; };
inline GenAuth g_auth_parts(Tape &t) {
  GenAuth a;
  a.hasUser = t.chance(1, 3);
  if (a.hasUser) a.user = g_userinfo(t);
  a.host = g_host(t, &a.hostKind);
  a.hasPort = t.chance(1, 3);
  if (a.hasPort) a.port = g_port(t);
  return a;
}
inline std::string auth_text(const GenAuth &a) {
  std::string s;
  if (a.hasUser) s += a.user + "@";
  s += a.host;
  if (a.hasPort) s += ":" + a.port;
  return s;
}

// Segment vocabulary, deliberately heavy in degenerate shapes.
enum SegFlavor { SEG_ANY = 0, SEG_NOPCTDOT = 1 /* no percent-encoded dot segments (C09) */ };
inline std::string g_segment(Tape &t, int flavor = SEG_ANY) {
  static const std::vector<std::string> vocab = {"a", "", ".", "..", "b", "c", "a:b", "%2e", "%2E%2e", "%41", "%7e",
                                                 "%3a", ";p", "@", "x.y", "..a", ".%2E", "d:", "%2F", ":", "1:2", "%7E:x", "_k:v", ".a", "...", "a.", "~."};
  static const std::vector<std::string> vocab_nopctdot = {"a", "", ".", "..", "b", "c", "a:b", "%41", "%7e", "%3a",
                                                          ";p", "@", "x.y", "..a", "d:", "%2F", "e", ":", "1:2", "_k:v", ".a", "...", "a.", "~."};
  if (g_scale() > 1 && t.chance(1, 8)) {
    static const int totals[] = {255, 256, 257, 258, 259, 512, 513, 514, 1023, 1024, 1025, 4095, 4096, 4097, 999, 1000, 1001, 96, 97, 128};
    static const char *pres4[] = {".", "..", "", "A"};  // dot-led, clean (nothing to repair), and with one letter to lower-case / keep
    std::string pre = pres4[t.below(4)];
    int total = totals[t.below(20)];
    // once per case at most (the recursive-descent parser needs stack in proportion to the text length): 2^16 + 1 / + 2
    if (g_huge_left() > 0 && t.chance(1, 6)) {
      g_huge_left()--;
      static const char *pres[] = {".", "..", "ab:", ":"};  // a colon early in a segment longer than 2^16
      pre = pres[t.below(4)];
      // lengths whose low 16 bits are 0 .. |prefix|: a scan or comparison that keeps only 16 bits of the length sees a prefix
      // of the prefix (a dot segment where there is none, no colon where there is one)
      total = 65536 + t.range(pre[0] == '.' ? 1 : 0, (int)pre.size());
    }
    return pre + std::string((size_t)total - pre.size(), 'a');
  }
  if (t.chance(5, 6)) return t.pick(flavor == SEG_NOPCTDOT ? vocab_nopctdot : vocab);
  std::string s = g_run(t, 6, ":@", flavor != SEG_NOPCTDOT);
  return s;
}
inline bool has_colon(const std::string &s) { return s.find(':') != std::string::npos; }

struct GenUri {
  bool hasScheme = false; std::string scheme;
  bool hasAuth = false; GenAuth auth;
  std::string path;
  bool hasQuery = false; std::string query;
  bool hasFrag = false; std::string frag;
  std::string text() const {
    std::string s;
    if (hasScheme) s += scheme + ":";
    if (hasAuth) s += "//" + auth_text(auth);
    s += path;
    if (hasQuery) s += "?" + query;
    if (hasFrag) s += "#" + frag;
    return s;
  }
};
// path for the given context; form: 0 empty, 1 rooted, 2 rootless (forced rooted/empty when authority present)
inline std::string g_path(Tape &t, bool hasScheme, bool hasAuth, int flavor = SEG_ANY, int maxSegs = 6) {
  int form = hasAuth ? t.weighted({1, 3, 0}) : t.weighted({1, 2, 3});
  if (form == 0) return "";
  int n = t.range(form == 1 ? 0 : 1, maxSegs * g_scale());
  // long mode, one path in ten: several hundred / a thousand segments (thresholds and counters that are not powers of two);
  // only the first and last few are generated, the rest is a constant (the choice tape is finite)
  int filler = 0;
  if (g_scale() > 1 && t.chance(1, 10)) { static const int counts[] = {384, 385, 400, 999, 1000, 1001, 1024, 1025}; filler = counts[t.below(8)]; n = t.range(2, 5); }
  std::vector<std::string> segs;
  for (int i = 0; i < n; i++) {
    segs.push_back(g_segment(t, flavor));
    if (filler && i == n / 2) { for (int k = n; k < filler; k++) segs.push_back(k % 5 ? "d" : "e"); }
  }
  n = (int)segs.size();
  if (form == 1) {
    if (n == 0) return "/";
    // path-absolute without authority: first segment must be non-empty (else it would read as "//")
    if (!hasAuth && segs[0].empty()) segs[0] = ".";
    std::string p = "/";
    for (int i = 0; i < n; i++) { if (i) p += '/'; p += segs[i]; }
    return p;
  }
  // rootless: first segment non-empty; without scheme it must not contain ':'
  if (segs[0].empty()) segs[0] = "a";
  if (!hasScheme && has_colon(segs[0])) {
    std::string f;
    for (char c : segs[0]) if (c != ':') f += c;
    segs[0] = f.empty() ? "a" : f;
  }
  std::string p;
  for (int i = 0; i < n; i++) { if (i) p += '/'; p += segs[i]; }
  return p;
}
inline std::string g_queryfrag(Tape &t) {
  static const std::vector<std::string> pool = {"", "q", "a=b&c=d", "x/y?z", "%41%7e", "k=%3d", ":@/?", "Q%c3"};
  if (g_scale() > 1 && t.chance(1, 8)) { static const int lens[] = {1023, 1024, 1025, 4095, 4096, 4097, 1000, 2048}; return std::string(t.coin() ? "q=" : "") + std::string((size_t)lens[t.below(8)], 'v'); }
  if (t.chance(3, 4)) return t.pick(pool);
  return g_run(t, 8, ":@/?", true);
}
inline GenUri g_uri_parts(Tape &t, int flavor = SEG_ANY, int maxSegs = 6) {
  GenUri u;
  u.hasScheme = t.coin();
  if (u.hasScheme) u.scheme = g_scheme(t);
  u.hasAuth = t.coin();
  if (u.hasAuth) u.auth = g_auth_parts(t);
  u.path = g_path(t, u.hasScheme, u.hasAuth, flavor, maxSegs);
  u.hasQuery = t.chance(1, 3);
  if (u.hasQuery) u.query = g_queryfrag(t);
  u.hasFrag = t.chance(1, 4);
  if (u.hasFrag) u.frag = g_queryfrag(t);
  return u;
}
// Whole references that other specifications, browsers or "helpful" code treat specially although RFC 3986 reads them
// like any other: one text in 32. (SEG_NOPCTDOT callers get only the members without percent-encoded dots.)
inline const std::vector<std::string> &famous_texts() {
  static const std::vector<std::string> v = {
      "URL:http://example.com/a", "url:s://h/b", "view-source:http://h/", "javascript:alert(1)", "data:text/plain;base64,AA==", "mailto:a@b.c?subject=x", "urn:isbn:0451450523",
      "tel:+1-816-555-1212", "news:comp.lang.c", "file:///C:/x/../y", "file:/C:/x", "file://localhost/etc/fstab", "file:///C:/../boot.ini", "file:c:/x", "FILE:///c:/x",
      "http://0x7f.0.0.1/", "http://0177.0.0.1/", "http://127.1/", "http://2130706433/", "http://1.2.3.4./", "http://example.com./a", "http://h:00080/", "http://h:080/a", "http://h:/a",
      "http://h/#:~:text=a%2Db", "http://h/a#shipping:~:text=4%2d6%20weeks", "http://h/app/..;x=1/admin", "/a/.;jsessionid=4A/b", "reports/..;jsessionid=1A2B", "http://h/a;v=1/../b",
      "http://@h/", "http://:@h/", "http://u:@h/", "http://h/?", "http://h/#", "http://h?#", "HTTP://H/%7Euser", "http://h/a+b?c+d=e+f", "http://h/%2B?%2b", "http://h/a%20b/c%2fd",
      "http://[::ffff:192.0.2.33]/", "http://[64:ff9b::192.0.2.33]:80/", "http://[FEDC:BA98:7654:3210:FEDC:BA98:7654:3210]/", "http://[::1]:/", "//[v1.fe80::a+en1]/",
      "s://h/a//b", "s://h//", "s:////h/a", "s:/.//a", "s:a/..//b", "?", "#", "//", "///", "./", "../", "./:", ".//a", "a/../..", "http:", "http:a", "http:/a", "http:?q"};
  return v;
}
inline std::string g_uri(Tape &t, int flavor = SEG_ANY) {
  if (flavor == SEG_ANY && t.below(32) == 31) return t.pick(famous_texts());
  return g_uri_parts(t, flavor).text();
}

// ---------------------------------------------------------------------------
// G_ip6: literal *contents* that are frequently invalid in an instructive way.
inline std::string g_ip6_body(Tape &t) {
  std::string s;
  int k = t.range(0, 10);
  int zipAt = t.chance(2, 3) ? t.range(0, k) : -1;
  int zipAt2 = t.chance(1, 8) ? t.range(0, k) : -1;
  for (int i = 0; i <= k; i++) {
    if (i == zipAt || i == zipAt2) s += (i == 0 ? "::" : ":");
    if (i == k) break;
    int w = t.weighted({1, 6, 6, 6, 6, 1});  // 0 and 5 digits are the invalid widths
    for (int d = 0; d < w; d++) s += g_hex(t);
    if (i + 1 < k) s += ':';
  }
  if (t.chance(1, 3)) {
    static const std::vector<std::string> oct = {"0", "9", "10", "99", "100", "199", "249", "250", "255", "256", "260", "300", "01", "00", "",
                                                 "25", "A1", "1A", "F", "f0", "999"};  // hex-looking and boundary "octets"
    int n = t.chance(4, 5) ? 4 : t.range(1, 5);
    if (!s.empty() && s.back() != ':') s += ':';
    for (int i = 0; i < n; i++) { if (i) s += '.'; s += t.pick(oct); }
  }
  if (t.chance(1, 10)) s.insert(t.below((uint32_t)s.size() + 1), 1, ":.%"[t.below(3)]);
  // what other specifications allow inside the brackets and RFC 3986 does not: zone identifiers (RFC 6874 and the
  // pre-standard spelling), prefix lengths, ports inside
  if (t.chance(1, 8)) { static const std::vector<std::string> ext = {"%25eth0", "%25", "%251", "%eth0", "%2", "%", "%25e%74h0", "/64", "%25-._~", ":80"}; s += t.pick(ext); }
  return s;
}

// ---------------------------------------------------------------------------
// G_noise: not necessarily valid. Returns code points; `arm` receives which arm was used.
inline const std::vector<char32_t> &interesting_alphabet() {
  static const std::vector<char32_t> a = {':', '/', '?', '#', '[', ']', '@', '%', '.', '-', '+', '!', ';', '=', '0', '1', '2',
                                          '5', '6', '9', 'a', 'f', 'F', 'g', 'v', 'V', ' ', 0x00, 0x7f, 0x80, 0xff, '\\', '^', '|', '"', '<', '{', '`'};
  return a;
}
inline u32s to32(const std::string &s) { u32s o; for (unsigned char c : s) o += (char32_t)c; return o; }
inline u32s g_noise(Tape &t, bool wideExtras, int *arm = nullptr) {
  static const std::vector<std::string> tokens = {"//", "[", "]", "::", "%4", "%4G", "1.2.3.4", "255", "256", "v1.", "@", ":80", ":",
                                                  "/", "?", "#", "a", "http:", "[::1]", "[v1.a]", "%41", "..", ".", "1:", ":1", "[1::",
                                                  "::]", "1.2.3.", "%", "x:y@", "01", "ffff:", "[ffff",
                                                  "u:%zz@h", "u:12%4g@h", "//u:%@h", "%zz", "%4g", ":%G", "u:1%41@h"};
  int a = t.weighted({40, 35, 15, 10});
  if (arm) *arm = a;
  u32s s;
  auto noiseChar = [&]() -> char32_t {
    if (wideExtras && t.chance(1, 4)) {
      // code points a truncating cast would alias onto ASCII, and very large ones
      static const char ascii[] = ":/?#[]@%.a1fv";
      char c = ascii[t.below(13)];
      switch (t.below(4)) {
        case 0: return 0x100 + c;
        case 1: return 0x10000 + c;
        case 2: return 0x7fffff00 + c;
        default: return 0x7fffffff;
      }
    }
    return t.pick(interesting_alphabet());
  };
  if (a == 0) return to32(g_uri(t));
  if (a == 1) {
    // put a bracketed literal with suspicious contents in context half of the time
    if (t.chance(1, 3)) {
      std::string pre = t.coin() ? "//" : "s://";
      if (t.chance(1, 4)) pre += "u@";
      std::string close = t.weighted({6, 1, 1}) == 0 ? "]" : (t.coin() ? "" : "]x");
      std::string rest = t.chance(1, 3) ? ":8/p" : "";
      std::string body = g_ip6_body(t);
      // one in three: a well-formed address, half of them followed by what other specifications allow before the ']'
      if (t.chance(1, 3)) { static const std::vector<std::string> ext = {"%25eth0", "%25", "%251", "%eth0", "%25e%74h0", "/64", "%25-._~", "%25wlan0.1"}; body = g_ipv6_valid(t) + (t.coin() ? t.pick(ext) : std::string()); }
      s = to32(pre + "[" + body + close + rest);
    } else {
      s = to32(g_uri(t));
    }
    int edits = t.range(1, 3);
    for (int e = 0; e < edits; e++) {
      uint32_t pos = t.below((uint32_t)s.size() + 1);
      switch (t.below(wideExtras ? 7 : 5)) {
        case 5: case 6:  // wide only: a character of the text is lifted beyond 255 in a way that keeps its low byte (or low 16 bits): the text
                         // stays well formed for code that narrows a character before classifying it, and is ill formed in truth
          if (!s.empty()) { static const char32_t add[] = {0x100, 0x10000, 0x400, 0x2100, 0x7fffff00}; char32_t &c = s[pos % s.size()]; if (c < 0x100) c += add[t.below(5)]; }
          break;
        case 0: s.insert(s.begin() + pos, noiseChar()); break;
        case 1: if (!s.empty()) s.erase(s.begin() + (pos % s.size())); break;
        case 2: if (!s.empty()) s[pos % s.size()] = noiseChar(); break;
        case 3: if (!s.empty()) { char32_t c = s[pos % s.size()]; s.insert(s.begin() + (pos % s.size()), c); } break;
        default: s.resize(pos);
      }
    }
    return s;
  }
  if (a == 2) {
    int n = t.range(1, 8);
    for (int i = 0; i < n; i++) s += to32(t.pick(tokens));
    return s;
  }
  int n = t.range(0, 12);
  for (int i = 0; i < n; i++) {
    if (t.chance(1, 3)) s += noiseChar();
    else s += (char32_t)t.below(256);
  }
  return s;
}


// ---------------------------------------------------------------------------
// G_pair: correlated (base, reference) and (source, base) pairs built from one
// shared pool, so that "same scheme", "same host but other port", "path is a
// prefix", "equal up to the last segment" ... all occur often.
inline const std::vector<std::string> &pool_schemes() { static const std::vector<std::string> v = {"s", "t", "http", "S", "svn+ssh", "https", "file", "ftp", "ws"}; return v; }  // incl. schemes with well-known default ports / special handling elsewhere
inline GenAuth g_pool_auth(Tape &t) {
  GenAuth a;
  // IP hosts come in groups that differ in one half / one octet only, and in spellings of one value
  static const std::vector<std::string> hosts = {"h", "g", "H", "", "1.2.3.4", "[::1]", "[0:0:0:0:0:0:0:1]", "[v1.a]", "h%41",
                                                 "[::2]", "[1::1]", "1.2.3.5", "2.2.3.4", "[v1.b]", "[V1.a]", "[::1.2.3.4]", "hh", "v1.a",
                                                 "localhost", "127.0.0.1", "[::ffff:1.2.3.4]", "[64:ff9b::102:304]", "0.0.0.0", "255.255.255.255", "locations"};
  static const int kinds[] = {1, 1, 1, 1, 2, 3, 3, 4, 1, 3, 3, 2, 2, 4, 4, 3, 1, 1, 1, 2, 3, 3, 2, 2, 1};
  uint32_t i = t.below((uint32_t)hosts.size());
  a.host = hosts[i]; a.hostKind = kinds[i];
  a.hasUser = t.chance(1, 5);
  if (a.hasUser) a.user = t.chance(1, 4) ? "" : (t.coin() ? "u" : "w:p");
  a.hasPort = t.chance(1, 4);
  if (a.hasPort) { static const std::vector<std::string> ports = {"80", "81", "80", "81", "443", "21", "0", "080"}; a.port = t.chance(1, 4) ? "" : t.pick(ports); }  // incl. default ports of the pool's schemes
  return a;
}
inline std::string g_pool_path(Tape &t, bool hasScheme, bool hasAuth, int flavor, int maxSegs = 5) { return g_path(t, hasScheme, hasAuth, flavor, maxSegs); }
inline GenUri g_base(Tape &t, bool forceScheme, int flavor = SEG_ANY) {
  GenUri b;
  b.hasScheme = forceScheme || t.chance(9, 10);
  if (b.hasScheme) b.scheme = t.pick(pool_schemes());
  b.hasAuth = t.chance(3, 5);
  if (b.hasAuth) b.auth = g_pool_auth(t);
  b.path = g_pool_path(t, b.hasScheme, b.hasAuth, flavor);
  b.hasQuery = t.chance(1, 4);
  if (b.hasQuery) b.query = t.coin() ? "q" : "";
  b.hasFrag = t.chance(1, 8);
  if (b.hasFrag) b.frag = "bf";
  return b;
}
// returns reference kind: 0 same-scheme absolute, 1 other-scheme absolute, 2 network-path, 3 absolute-path, 4 relative-path, 5 empty path
inline GenUri g_ref(Tape &t, const GenUri &base, int *kind = nullptr, int flavor = SEG_ANY) {
  GenUri r;
  int k = t.weighted({35, 20, 15, 10, 10, 10});
  static const int map[] = {4, 3, 0, 1, 2, 5};
  k = map[k];
  if (kind) *kind = k;
  auto dotty_rel = [&](bool first_may_have_colon) {
    int n = t.range(1, 5);
    std::string p;
    for (int i = 0; i < n; i++) {
      std::string sg = g_segment(t, flavor);
      if (i == 0) {
        if (sg.empty()) sg = ".";
        if (!first_may_have_colon && has_colon(sg)) sg = "./" + sg;  // keep it a valid relative-path reference
      }
      if (i) p += '/';
      p += sg;
    }
    return p;
  };
  switch (k) {
    case 0:
      r.hasScheme = true; r.scheme = base.hasScheme ? base.scheme : "s";
      r.hasAuth = t.chance(1, 3);
      if (r.hasAuth) r.auth = t.coin() ? g_pool_auth(t) : base.auth;
      r.path = t.coin() ? g_pool_path(t, true, r.hasAuth, flavor) : (r.hasAuth ? std::string() : dotty_rel(true));
      break;
    case 1:
      r.hasScheme = true; r.scheme = (base.hasScheme && base.scheme == "s") ? "t" : (t.coin() ? "s" : "X");
      // schemes that are *related* to the base's without being equal: extension, proper prefix, other letter case
      if (base.hasScheme) switch (t.weighted({5, 2, 1, 1, 2})) {
        case 1: r.scheme = base.scheme + (t.coin() ? "s" : "+x"); break;
        case 2: r.scheme = base.scheme.size() > 1 ? base.scheme.substr(0, base.scheme.size() - 1) : base.scheme + "0"; break;
        case 3: r.scheme = base.scheme; r.scheme[0] = (char)(r.scheme[0] ^ 0x20); break;
        case 4: r.scheme = base.scheme.size() > 1 ? base.scheme : base.scheme + "tp"; r.scheme.back() = r.scheme.back() == 'q' ? 'r' : 'q'; break;  // same length, differs late
        default: break;
      }
      r.hasAuth = t.coin();
      if (r.hasAuth) r.auth = g_pool_auth(t);
      r.path = g_pool_path(t, true, r.hasAuth, flavor);
      break;
    case 2:
      r.hasAuth = true; r.auth = t.chance(1, 3) && base.hasAuth ? base.auth : g_pool_auth(t);
      r.path = g_pool_path(t, false, true, flavor);
      break;
    case 3: {
      int n = t.range(0, 5);
      r.path = "/";
      for (int i = 0; i < n; i++) {
        std::string sg = g_segment(t, flavor);
        if (i == 0 && sg.empty()) sg = t.coin() ? "." : "..";
        if (i) r.path += '/';
        r.path += sg;
      }
      break;
    }
    case 4: r.path = dotty_rel(false); break;
    default: break;
  }
  r.hasQuery = t.chance(1, 3);
  if (r.hasQuery) r.query = t.coin() ? "rq" : "";
  r.hasFrag = t.chance(1, 4);
  if (r.hasFrag) r.frag = t.coin() ? "rf" : "";
  return r;
}


// (source, base) pairs for reference creation (C10): both absolute, heavy overlap.
// klass: 0 identical, 1 S path proper prefix of B's, 2 B prefix of S, 3 differ in last segment, 4 other port/userinfo,
//        5 query on one side only, 6 rooted vs rootless without authority, 7 different scheme, 8 unrelated path, 9 non-absolute S or B
inline std::string join_segs(const std::vector<std::string> &v, bool rooted) {
  std::string p = rooted ? "/" : "";
  for (size_t i = 0; i < v.size(); i++) { if (i) p += '/'; p += v[i]; }
  return p;
}
inline void g_source_base(Tape &t, GenUri *S, GenUri *B, int *klass, int flavor = SEG_ANY) {
  static const std::vector<std::string> plain = {"a", "b", "c", "x", "d:", "a:b", "", "e.f", "%41", "1:2", ":"};
  auto seg = [&]() -> std::string { return t.chance(17, 20) ? t.pick(plain) : g_segment(t, flavor); };
  GenUri b;
  b.hasScheme = true; b.scheme = t.pick(pool_schemes());
  b.hasAuth = t.chance(7, 10);
  if (b.hasAuth) b.auth = g_pool_auth(t);
  int nb = t.range(0, 4);
  std::vector<std::string> bs;
  for (int i = 0; i < nb; i++) bs.push_back(seg());
  // long mode: in a third of the cases the base lies 250-300 directories deep (counters of "../" that are narrower than int)
  if (g_scale() > 1 && t.chance(1, 3)) { int deep = t.chance(3, 4) ? t.range(250, 300) : t.range(995, 1030); for (int i = 0; i < deep; i++) bs.push_back(i % 7 ? "a" : "b"); }
  bool brooted = b.hasAuth ? true : t.chance(3, 4);
  auto fixfirst = [&](std::vector<std::string> &v, bool rooted, bool hasAuth) {
    if (v.empty()) return;
    if (!hasAuth && v[0].empty()) v[0] = "r";  // "//" or empty rootless first segment would change the kind of path
  };
  fixfirst(bs, brooted, b.hasAuth);
  GenUri s = b;
  std::vector<std::string> ss = bs;
  bool srooted = brooted;
  int k = t.weighted({8, 12, 14, 16, 10, 8, 6, 8, 12, 6});
  switch (k) {
    case 0: break;
    case 1: { int cut = ss.empty() ? 0 : t.range(0, (int)ss.size() - 1); ss.resize(cut); break; }
    case 2: { int add = t.range(1, 3); for (int i = 0; i < add; i++) ss.push_back(seg()); break; }
    case 3: if (ss.empty()) ss.push_back(seg()); else ss.back() = seg(); if (t.chance(1, 3)) ss.push_back(seg()); break;
    case 4:
      if (!s.hasAuth) { s.hasAuth = true; s.auth = g_pool_auth(t); srooted = true; }
      else switch (t.below(4)) {
        case 0: s.auth.hasPort = !s.auth.hasPort; s.auth.port = "82"; break;
        case 1: s.auth.hasUser = !s.auth.hasUser; s.auth.user = "v"; break;
        case 2: s.auth = g_pool_auth(t); break;
        default: s.hasAuth = false; srooted = t.coin(); break;
      }
      break;
    case 5: break;
    case 6: if (!s.hasAuth && !b.hasAuth) srooted = !brooted; else { s.hasAuth = false; srooted = t.coin(); } break;
    case 7:
      s.scheme = b.scheme == "s" ? "t" : (t.coin() ? "s" : "S");
      switch (t.weighted({4, 2, 1})) {  // related but different schemes: extension / proper prefix
        case 1: s.scheme = b.scheme + (t.coin() ? "s" : ".x"); break;
        case 2: if (b.scheme.size() > 1) s.scheme = b.scheme.substr(0, b.scheme.size() - 1); break;
        default: break;
      }
      break;
    case 8: { ss.clear(); int n = t.range(0, 4); for (int i = 0; i < n; i++) ss.push_back(seg()); break; }
    default: break;
  }
  // long mode, one pair in three: a component that S and B both have becomes a pair of long twins - same length (about
  // 96 / 128 / 256 / 1024 characters), identical first half, first difference late (comparisons that look at a prefix,
  // at bytes instead of characters, or at a narrowed length call them equal)
  if (g_scale() > 1 && t.chance(1, 3)) {
    static const int lens[] = {96, 97, 100, 128, 130, 255, 256, 257, 1024};
    std::string xa((size_t)lens[t.below(9)], 'm'), xb = xa;
    xb[xb.size() - 1 - t.below((uint32_t)(xb.size() / 2))] = 'n';
    switch (t.below(3)) {
      case 0: {
        size_t common = ss.size() < bs.size() ? ss.size() : bs.size();
        if (common) { size_t i = t.below((uint32_t)common); ss[i] = xa; bs[i] = xb; } else { ss.push_back(xa); bs.push_back(xb); }
        break;
      }
      case 1: if (s.hasAuth && b.hasAuth) { s.auth.host = xa; s.auth.hostKind = 1; b.auth.host = xb; b.auth.hostKind = 1; } break;
      default: s.scheme = "s" + xa; b.scheme = "s" + xb;
    }
  }
  // dot segments inside S or B in 15% of pairs
  if (t.chance(3, 20)) { std::vector<std::string> &v = t.coin() ? ss : bs; v.insert(v.begin() + t.below((uint32_t)v.size() + 1), t.coin() ? ".." : "."); }
  fixfirst(ss, srooted, s.hasAuth);
  fixfirst(bs, brooted, b.hasAuth);
  if (s.hasAuth) srooted = true;
  if (b.hasAuth) brooted = true;
  b.path = (bs.empty() && b.hasAuth && t.coin()) ? std::string() : (bs.empty() && !brooted ? std::string() : join_segs(bs, brooted));
  s.path = (ss.empty() && s.hasAuth && t.coin()) ? std::string() : (ss.empty() && !srooted ? std::string() : join_segs(ss, srooted));
  s.hasQuery = t.chance(1, 4); if (s.hasQuery) s.query = t.coin() ? "q" : "";
  b.hasQuery = t.chance(1, 4); if (b.hasQuery) b.query = t.chance(1, 3) ? "" : (t.coin() ? "q" : "p");
  if (k == 5) { std::string q = t.chance(1, 3) ? "" : "q"; if (t.coin()) { s.hasQuery = true; s.query = q; b.hasQuery = false; } else { b.hasQuery = true; b.query = q; s.hasQuery = false; } }
  s.hasFrag = t.chance(1, 5); if (s.hasFrag) s.frag = "f";
  b.hasFrag = t.chance(1, 8); if (b.hasFrag) b.frag = "bf";
  if (k == 9) { if (t.coin()) s.hasScheme = false; if (t.coin()) b.hasScheme = false; if (s.hasScheme && b.hasScheme) b.hasScheme = false; }
  // keep the texts valid: scheme-less + authority-less rootless first segment must not contain ':'
  auto fixnoscheme = [&](GenUri &u) {
    if (!u.hasScheme && !u.hasAuth && !u.path.empty() && u.path[0] != '/') {
      size_t e = u.path.find('/');
      std::string first = u.path.substr(0, e);
      if (first.find(':') != std::string::npos) u.path = "./" + u.path;
    }
  };
  fixnoscheme(s); fixnoscheme(b);
  *S = s; *B = b; *klass = k;
}

}  // namespace vf
