// Reference models (oracles), written from RFC 3986 and the statements in
// properties.jsonl; deliberately structured unlike the library (regular-expression
// automaton instead of recursive descent, strings and vectors instead of linked
// lists).
#pragma once
#include <algorithm>
#include <array>
#include <bitset>
#include <map>
#include <memory>
#include <string>
#include <vector>
#include "verif.hpp"

namespace vf {

// ===========================================================================
// M_nfa: RFC 3986 Appendix A transcribed into a regular-expression AST,
// compiled with Thompson's construction, simulated through a lazily built DFA.
// ===========================================================================
struct Re;
using ReP = std::shared_ptr<Re>;
struct Re {
  enum K { CLS, SEQ, ALT, REP } k;
  std::bitset<256> cls;
  std::vector<ReP> kids;
  int mn = 1, mx = 1;  // REP: mx < 0 = unbounded
};
inline ReP re_cls(const std::bitset<256> &b) { auto r = std::make_shared<Re>(); r->k = Re::CLS; r->cls = b; return r; }
inline std::bitset<256> cs_range(int a, int b) { std::bitset<256> s; for (int c = a; c <= b; c++) s.set(c); return s; }
inline std::bitset<256> cs_of(const char *chars) { std::bitset<256> s; for (; *chars; chars++) s.set((unsigned char)*chars); return s; }
inline ReP re_lit(const char *text) {  // ABNF literal strings are case-insensitive
  auto r = std::make_shared<Re>();
  r->k = Re::SEQ;
  for (; *text; text++) {
    std::bitset<256> b;
    unsigned char c = (unsigned char)*text;
    b.set(c);
    if (c >= 'a' && c <= 'z') b.set(c - 32);
    if (c >= 'A' && c <= 'Z') b.set(c + 32);
    r->kids.push_back(re_cls(b));
  }
  return r;
}
inline ReP re_seq(std::vector<ReP> v) { auto r = std::make_shared<Re>(); r->k = Re::SEQ; r->kids = std::move(v); return r; }
inline ReP re_alt(std::vector<ReP> v) { auto r = std::make_shared<Re>(); r->k = Re::ALT; r->kids = std::move(v); return r; }
inline ReP re_rep(ReP x, int mn, int mx) { auto r = std::make_shared<Re>(); r->k = Re::REP; r->kids = {x}; r->mn = mn; r->mx = mx; return r; }
inline ReP re_star(ReP x) { return re_rep(x, 0, -1); }
inline ReP re_plus(ReP x) { return re_rep(x, 1, -1); }
inline ReP re_opt(ReP x) { return re_rep(x, 0, 1); }

struct Nfa {
  struct St { std::bitset<256> cls; int to = -1; std::vector<int> eps; };
  std::vector<St> st;
  int start = 0, accept = 0;
  int add() { st.emplace_back(); return (int)st.size() - 1; }
  // builds fragment for r starting in state s, returns end state
  int build(const ReP &r, int s) {
    switch (r->k) {
      case Re::CLS: { int e = add(); st[s].cls = r->cls; st[s].to = e; int e2 = add(); st[e].eps.push_back(e2); return e2; }
      case Re::SEQ: { int cur = s; for (auto &k : r->kids) { int n = add(); st[cur].eps.push_back(n); cur = build(k, n); } return cur; }
      case Re::ALT: { int e = add(); for (auto &k : r->kids) { int n = add(); st[s].eps.push_back(n); int ke = build(k, n); st[ke].eps.push_back(e); } return e; }
      case Re::REP: {
        int cur = s;
        for (int i = 0; i < r->mn; i++) { int n = add(); st[cur].eps.push_back(n); cur = build(r->kids[0], n); }
        if (r->mx < 0) {
          int loop = add(), e = add();
          st[cur].eps.push_back(loop);
          int n = add(); st[loop].eps.push_back(n);
          int ke = build(r->kids[0], n);
          st[ke].eps.push_back(loop);
          st[loop].eps.push_back(e);
          return e;
        }
        int e = add();
        st[cur].eps.push_back(e);
        for (int i = r->mn; i < r->mx; i++) { int n = add(); st[cur].eps.push_back(n); cur = build(r->kids[0], n); st[cur].eps.push_back(e); }
        return e;
      }
    }
    return s;
  }
};

struct UriGrammar {
  ReP uriReference, ipv6address, ipv4address, host, query;
  UriGrammar() {
    auto ALPHA = cs_range('a', 'z') | cs_range('A', 'Z');
    auto DIGIT = cs_range('0', '9');
    auto HEXDIGs = DIGIT | cs_range('a', 'f') | cs_range('A', 'F');
    auto unreserved = ALPHA | DIGIT | cs_of("-._~");
    auto subdelims = cs_of("!$&'()*+,;=");
    ReP HEXDIG = re_cls(HEXDIGs);
    ReP pct = re_seq({re_lit("%"), HEXDIG, HEXDIG});
    ReP pchar = re_alt({re_cls(unreserved | subdelims | cs_of(":@")), pct});
    ReP query_ = re_star(re_alt({pchar, re_cls(cs_of("/?"))}));
    ReP fragment = query_;
    ReP segment = re_star(pchar);
    ReP segment_nz = re_plus(pchar);
    ReP segment_nz_nc = re_plus(re_alt({re_cls(unreserved | subdelims | cs_of("@")), pct}));
    ReP path_abempty = re_star(re_seq({re_lit("/"), segment}));
    ReP path_absolute = re_seq({re_lit("/"), re_opt(re_seq({segment_nz, re_star(re_seq({re_lit("/"), segment}))}))});
    ReP path_noscheme = re_seq({segment_nz_nc, re_star(re_seq({re_lit("/"), segment}))});
    ReP path_rootless = re_seq({segment_nz, re_star(re_seq({re_lit("/"), segment}))});
    ReP path_empty = re_seq({});
    ReP reg_name = re_star(re_alt({re_cls(unreserved | subdelims), pct}));
    ReP dec_octet = re_alt({re_cls(DIGIT), re_seq({re_cls(cs_range('1', '9')), re_cls(DIGIT)}),
                            re_seq({re_lit("1"), re_cls(DIGIT), re_cls(DIGIT)}),
                            re_seq({re_lit("2"), re_cls(cs_range('0', '4')), re_cls(DIGIT)}),
                            re_seq({re_lit("25"), re_cls(cs_range('0', '5'))})});
    ReP ipv4 = re_seq({dec_octet, re_lit("."), dec_octet, re_lit("."), dec_octet, re_lit("."), dec_octet});
    ReP h16 = re_rep(HEXDIG, 1, 4);
    ReP ls32 = re_alt({re_seq({h16, re_lit(":"), h16}), ipv4});
    ReP h16c = re_seq({h16, re_lit(":")});
    auto lead = [&](int n) { return re_opt(re_seq({re_rep(h16c, 0, n), h16})); };
    ReP ipv6 = re_alt({
        re_seq({re_rep(h16c, 6, 6), ls32}),
        re_seq({re_lit("::"), re_rep(h16c, 5, 5), ls32}),
        re_seq({re_opt(h16), re_lit("::"), re_rep(h16c, 4, 4), ls32}),
        re_seq({lead(1), re_lit("::"), re_rep(h16c, 3, 3), ls32}),
        re_seq({lead(2), re_lit("::"), re_rep(h16c, 2, 2), ls32}),
        re_seq({lead(3), re_lit("::"), h16c, ls32}),
        re_seq({lead(4), re_lit("::"), ls32}),
        re_seq({lead(5), re_lit("::"), h16}),
        re_seq({lead(6), re_lit("::")}),
    });
    ReP ipvfuture = re_seq({re_lit("v"), re_plus(HEXDIG), re_lit("."), re_plus(re_cls(unreserved | subdelims | cs_of(":")))});
    ReP ip_literal = re_seq({re_lit("["), re_alt({ipv6, ipvfuture}), re_lit("]")});
    ReP port = re_star(re_cls(DIGIT));
    ReP host_ = re_alt({ip_literal, ipv4, reg_name});
    ReP userinfo = re_star(re_alt({re_cls(unreserved | subdelims | cs_of(":")), pct}));
    ReP authority = re_seq({re_opt(re_seq({userinfo, re_lit("@")})), host_, re_opt(re_seq({re_lit(":"), port}))});
    ReP scheme = re_seq({re_cls(ALPHA), re_star(re_cls(ALPHA | DIGIT | cs_of("+-.")))});
    ReP hier_part = re_alt({re_seq({re_lit("//"), authority, path_abempty}), path_absolute, path_rootless, path_empty});
    ReP relative_part = re_alt({re_seq({re_lit("//"), authority, path_abempty}), path_absolute, path_noscheme, path_empty});
    ReP tail = re_seq({re_opt(re_seq({re_lit("?"), query_})), re_opt(re_seq({re_lit("#"), fragment}))});
    ReP uri = re_seq({scheme, re_lit(":"), hier_part, tail});
    ReP relative_ref = re_seq({relative_part, tail});
    uriReference = re_alt({uri, relative_ref});
    ipv6address = ipv6;
    ipv4address = ipv4;
    host = host_;
    query = query_;
  }
};

// Lazy subset construction over an Nfa.
struct Matcher {
  Nfa nfa;
  std::map<std::vector<int>, int> ids;
  std::vector<std::vector<int>> sets;
  std::vector<std::array<int, 256>> trans;  // -2 unknown, -1 dead
  std::vector<char> acc;
  int init = -1;
  explicit Matcher(const ReP &r) {
    nfa.start = nfa.add();
    nfa.accept = nfa.build(r, nfa.start);
    init = intern(closure({nfa.start}));
  }
  std::vector<int> closure(std::vector<int> seed) {
    std::vector<char> seen(nfa.st.size(), 0);
    std::vector<int> stack = seed, out;
    for (int s : seed) seen[s] = 1;
    while (!stack.empty()) {
      int s = stack.back(); stack.pop_back();
      out.push_back(s);
      for (int e : nfa.st[s].eps) if (!seen[e]) { seen[e] = 1; stack.push_back(e); }
    }
    std::sort(out.begin(), out.end());
    return out;
  }
  int intern(const std::vector<int> &set) {
    if (set.empty()) return -1;
    auto it = ids.find(set);
    if (it != ids.end()) return it->second;
    int id = (int)sets.size();
    ids[set] = id;
    sets.push_back(set);
    std::array<int, 256> t; t.fill(-2);
    trans.push_back(t);
    acc.push_back(std::binary_search(set.begin(), set.end(), nfa.accept) ? 1 : 0);
    return id;
  }
  int step(int d, unsigned c) {
    if (d < 0 || c > 255) return -1;
    int &t = trans[d][c];
    if (t != -2) return t;
    std::vector<int> nx;
    for (int s : sets[d]) if (nfa.st[s].to >= 0 && nfa.st[s].cls.test(c)) nx.push_back(nfa.st[s].to);
    int r = nx.empty() ? -1 : intern(closure(nx));
    trans[d][c] = r;  // re-index: intern may have reallocated trans
    return r;
  }
  struct Res { bool accepted; size_t L; };
  // L = index of the first code point after which no completion exists; |s| if none
  Res run(const u32s &s) {
    int d = init;
    for (size_t i = 0; i < s.size(); i++) {
      d = step(d, (unsigned)s[i]);
      if (d < 0) return {false, i};
    }
    return {acc[d] != 0, s.size()};
  }
  Res run(const std::string &s) {
    int d = init;
    for (size_t i = 0; i < s.size(); i++) {
      d = step(d, (unsigned char)s[i]);
      if (d < 0) return {false, i};
    }
    return {acc[d] != 0, s.size()};
  }
  bool matches(const std::string &s) { return run(s).accepted; }
};

inline const UriGrammar &grammar() { static UriGrammar g; return g; }
inline Matcher &uriref_matcher() { static Matcher m(grammar().uriReference); return m; }
inline Matcher &ipv6_matcher() { static Matcher m(grammar().ipv6address); return m; }
inline Matcher &ipv4_matcher() { static Matcher m(grammar().ipv4address); return m; }
inline Matcher &query_matcher() { static Matcher m(grammar().query); return m; }

// ===========================================================================
// M_split: RFC 3986 Appendix B decomposition + host classification.
// Only meaningful for texts accepted by the grammar.
// ===========================================================================
enum HostKind { HK_NONE = 0, HK_REG = 1, HK_IP4 = 2, HK_IP6 = 3, HK_FUT = 4 };

struct MUri {
  bool hasScheme = false; std::string scheme; size_t schemeOff = 0;
  bool hasAuth = false;
  bool hasUser = false; std::string user; size_t userOff = 0;
  std::string host; size_t hostOff = 0;  // without brackets
  int hostKind = HK_NONE;
  std::array<uint8_t, 16> ip{};          // ip4: first 4 bytes
  bool hasPort = false; std::string port; size_t portOff = 0;
  std::string path; size_t pathOff = 0;
  bool hasQuery = false; std::string query; size_t queryOff = 0;
  bool hasFrag = false; std::string frag; size_t fragOff = 0;
};

inline std::vector<std::string> split_slash(const std::string &s) {
  std::vector<std::string> v;
  size_t i = 0;
  for (;;) {
    size_t e = s.find('/', i);
    if (e == std::string::npos) { v.push_back(s.substr(i)); break; }
    v.push_back(s.substr(i, e - i));
    i = e + 1;
  }
  return v;
}
inline std::string join_slash(const std::vector<std::string> &v) {
  std::string o;
  for (size_t i = 0; i < v.size(); i++) { if (i) o += '/'; o += v[i]; }
  return o;
}

// uriparser's representation of a path text
struct MPathRep { bool absolutePath = false; bool hasSegs = false; std::vector<std::string> segs; };
inline MPathRep path_rep(const std::string &path, bool hasAuth) {
  MPathRep r;
  if (path.empty()) return r;
  if (hasAuth) {  // path-abempty: starts with '/'
    r.hasSegs = true; r.segs = split_slash(path.substr(1));
    return r;
  }
  if (path[0] == '/') {
    r.absolutePath = true;
    if (path.size() > 1) { r.hasSegs = true; r.segs = split_slash(path.substr(1)); }
    return r;
  }
  r.hasSegs = true; r.segs = split_slash(path);
  return r;
}

inline bool strict_ipv4(const std::string &h, uint8_t out[4]) {
  if (!ipv4_matcher().matches(h)) return false;
  auto parts = std::vector<std::string>();
  size_t i = 0;
  for (int k = 0; k < 4; k++) {
    size_t e = h.find('.', i);
    if (e == std::string::npos) e = h.size();
    out[k] = (uint8_t)atoi(h.substr(i, e - i).c_str());
    i = e + 1;
  }
  return true;
}

// expand a grammar-valid IPv6 literal body into 16 bytes
inline bool ipv6_bytes(const std::string &t, uint8_t out[16]) {
  std::string s = t;
  std::vector<unsigned> tail4;
  // embedded IPv4?
  size_t lastColon = s.rfind(':');
  if (s.find('.') != std::string::npos) {
    std::string v4 = s.substr(lastColon + 1);
    uint8_t o[4];
    if (!strict_ipv4(v4, o)) return false;
    char b[16];
    snprintf(b, sizeof b, "%x:%x", o[0] * 256 + o[1], o[2] * 256 + o[3]);
    s = s.substr(0, lastColon + 1) + b;
  }
  std::vector<unsigned> head, tail;
  bool zip = false;
  size_t z = s.find("::");
  auto groups = [](const std::string &x) {
    std::vector<unsigned> g;
    if (x.empty()) return g;
    size_t i = 0;
    for (;;) {
      size_t e = x.find(':', i);
      std::string p = x.substr(i, e == std::string::npos ? std::string::npos : e - i);
      g.push_back((unsigned)strtoul(p.c_str(), nullptr, 16));
      if (e == std::string::npos) break;
      i = e + 1;
    }
    return g;
  };
  if (z != std::string::npos) { zip = true; head = groups(s.substr(0, z)); tail = groups(s.substr(z + 2)); }
  else head = groups(s);
  if (!zip && head.size() != 8) return false;
  if (zip && head.size() + tail.size() > 7) return false;
  std::vector<unsigned> all = head;
  if (zip) { all.resize(8 - tail.size(), 0); all.insert(all.end(), tail.begin(), tail.end()); }
  for (int i = 0; i < 8; i++) { out[2 * i] = (uint8_t)(all[i] >> 8); out[2 * i + 1] = (uint8_t)(all[i] & 0xff); }
  return true;
}

inline MUri m_split(const std::string &s) {
  MUri u;
  size_t i = 0, n = s.size();
  // scheme: text before the first ':' if that ':' precedes any of "/?#"
  size_t c = s.find_first_of(":/?#");
  if (c != std::string::npos && s[c] == ':') { u.hasScheme = true; u.scheme = s.substr(0, c); u.schemeOff = 0; i = c + 1; }
  if (i + 1 < n + 0 && s.compare(i, 2, "//") == 0) {
    u.hasAuth = true;
    size_t a = i + 2, e = s.find_first_of("/?#", a);
    if (e == std::string::npos) e = n;
    std::string auth = s.substr(a, e - a);
    size_t at = auth.rfind('@');  // userinfo cannot contain '@'; host cannot either
    size_t h = 0;
    if (at != std::string::npos) { u.hasUser = true; u.user = auth.substr(0, at); u.userOff = a; h = at + 1; }
    std::string hp = auth.substr(h);
    size_t hostEnd;
    if (!hp.empty() && hp[0] == '[') {
      size_t rb = hp.find(']');
      u.host = hp.substr(1, rb - 1); u.hostOff = a + h + 1;
      hostEnd = rb + 1;
      if (!u.host.empty() && (u.host[0] == 'v' || u.host[0] == 'V')) u.hostKind = HK_FUT;
      else { u.hostKind = HK_IP6; ipv6_bytes(u.host, u.ip.data()); }
    } else {
      size_t colon = hp.rfind(':');
      hostEnd = colon == std::string::npos ? hp.size() : colon;
      u.host = hp.substr(0, hostEnd); u.hostOff = a + h;
      uint8_t o[4];
      if (strict_ipv4(u.host, o)) { u.hostKind = HK_IP4; memcpy(u.ip.data(), o, 4); }
      else u.hostKind = HK_REG;
    }
    if (hostEnd < hp.size() && hp[hostEnd] == ':') { u.hasPort = true; u.port = hp.substr(hostEnd + 1); u.portOff = a + h + hostEnd + 1; }
    i = e;
  }
  size_t pe = s.find_first_of("?#", i);
  if (pe == std::string::npos) pe = n;
  u.path = s.substr(i, pe - i); u.pathOff = i;
  i = pe;
  if (i < n && s[i] == '?') {
    size_t qe = s.find('#', i);
    if (qe == std::string::npos) qe = n;
    u.hasQuery = true; u.query = s.substr(i + 1, qe - i - 1); u.queryOff = i + 1;
    i = qe;
  }
  if (i < n && s[i] == '#') { u.hasFrag = true; u.frag = s.substr(i + 1); u.fragOff = i + 1; }
  return u;
}

inline std::string ip6_text(const uint8_t ip[16]) {
  char b[64];
  snprintf(b, sizeof b, "%02x%02x:%02x%02x:%02x%02x:%02x%02x:%02x%02x:%02x%02x:%02x%02x:%02x%02x", ip[0], ip[1], ip[2],
           ip[3], ip[4], ip[5], ip[6], ip[7], ip[8], ip[9], ip[10], ip[11], ip[12], ip[13], ip[14], ip[15]);
  return b;
}
inline std::string ip4_text(const uint8_t ip[4]) {
  char b[32];
  snprintf(b, sizeof b, "%u.%u.%u.%u", ip[0], ip[1], ip[2], ip[3]);
  return b;
}

inline std::string m_authority_text(const MUri &u) {
  std::string o;
  if (u.hasUser) { o += u.user; o += '@'; }
  switch (u.hostKind) {
    case HK_IP4: o += ip4_text(u.ip.data()); break;
    case HK_IP6: o += '['; o += ip6_text(u.ip.data()); o += ']'; break;
    case HK_FUT: o += '['; o += u.host; o += ']'; break;
    default: o += u.host;
  }
  if (u.hasPort) { o += ':'; o += u.port; }
  return o;
}
// RFC 3986 5.3 recomposition (IPv6 in the library's canonical spelling)
inline std::string m_recompose(const MUri &u) {
  std::string o;
  if (u.hasScheme) { o += u.scheme; o += ':'; }
  if (u.hasAuth) { o += "//"; o += m_authority_text(u); }
  o += u.path;
  if (u.hasQuery) { o += '?'; o += u.query; }
  if (u.hasFrag) { o += '#'; o += u.frag; }
  return o;
}

// ===========================================================================
// Dot-segment removal on segment lists (keeps rooted/rootless), and the literal
// string algorithm of RFC 3986 5.2.4 for cross-checking on rooted inputs.
// ===========================================================================
// relativeRule: keep a leading run of ".." (relative-path references under normalisation)
inline std::string m_remove_dots(const std::string &path, bool relativeRule = false) {
  if (path.empty()) return path;
  bool rooted = path[0] == '/';
  std::string body = rooted ? path.substr(1) : path;
  std::vector<std::string> in = split_slash(body), out;
  for (size_t i = 0; i < in.size(); i++) {
    bool last = i + 1 == in.size();
    const std::string &sg = in[i];
    if (sg == ".") {
      if (last) out.push_back("");
    } else if (sg == "..") {
      if (relativeRule && !rooted && (out.empty() || out.back() == "..")) {
        out.push_back("..");
        if (last) { /* a kept trailing ".." stays as it is */ }
        continue;
      }
      if (!out.empty()) out.pop_back();
      if (last) out.push_back("");
    } else {
      out.push_back(sg);
    }
  }
  return (rooted ? "/" : "") + join_slash(out);
}
inline std::string rfc_remove_dot_segments(std::string in) {  // literal 5.2.4
  std::string out;
  auto starts = [&](const char *p) { return in.compare(0, strlen(p), p) == 0; };
  while (!in.empty()) {
    if (starts("../")) in.erase(0, 3);
    else if (starts("./")) in.erase(0, 2);
    else if (starts("/./")) in.replace(0, 3, "/");
    else if (in == "/.") in = "/";
    else if (starts("/../") || in == "/..") {
      in.replace(0, in == "/.." ? 3 : 4, "/");
      size_t p = out.rfind('/');
      out.erase(p == std::string::npos ? 0 : p);
    } else if (in == "." || in == "..") in.clear();
    else {
      size_t p = in.find('/', in[0] == '/' ? 1 : 0);
      if (p == std::string::npos) p = in.size();
      out += in.substr(0, p);
      in.erase(0, p);
    }
  }
  return out;
}

// ===========================================================================
// M_resolve: RFC 3986 5.2.2 on M_split components.
// ===========================================================================
struct MResolved {
  int rc = 0;           // 0 or URI_ERROR_ADDBASE_REL_BASE (5)
  MUri t;               // target (path = RFC path, without the '//' guard)
  bool needsGuard = false;  // host-less path beginning with "//": one '.' segment goes in front
  int branch = 0;       // 1 R.scheme, 2 R.authority, 3 empty path, 4 absolute path, 5 merge
  bool dotsInvolved = false;
};
inline void m_copy_auth(MUri &t, const MUri &s) {
  t.hasAuth = s.hasAuth; t.hasUser = s.hasUser; t.user = s.user; t.host = s.host; t.hostKind = s.hostKind;
  t.ip = s.ip; t.hasPort = s.hasPort; t.port = s.port;
}
inline bool has_dot_or_empty_seg(const std::string &p) {
  if (p.empty()) return false;
  for (auto &s : split_slash(p[0] == '/' ? p.substr(1) : p)) if (s == "." || s == ".." || s.empty()) return true;
  return false;
}
inline MResolved m_resolve(const MUri &B, const MUri &Rin, bool identicalSchemeCompat) {
  MResolved r;
  if (!B.hasScheme) { r.rc = 5; return r; }
  MUri R = Rin;
  if (identicalSchemeCompat && R.hasScheme && R.scheme == B.scheme) R.hasScheme = false;
  MUri &T = r.t;
  std::string pre;
  if (R.hasScheme) {
    r.branch = 1;
    T.hasScheme = true; T.scheme = R.scheme; m_copy_auth(T, R);
    pre = R.path; T.path = m_remove_dots(R.path);
    T.hasQuery = R.hasQuery; T.query = R.query;
  } else {
    if (R.hasAuth) {
      r.branch = 2;
      m_copy_auth(T, R);
      pre = R.path; T.path = m_remove_dots(R.path);
      T.hasQuery = R.hasQuery; T.query = R.query;
    } else {
      if (R.path.empty()) {
        r.branch = 3;
        T.path = B.path;
        if (R.hasQuery) { T.hasQuery = true; T.query = R.query; }
        else { T.hasQuery = B.hasQuery; T.query = B.query; }
      } else {
        if (R.path[0] == '/') { r.branch = 4; pre = R.path; T.path = m_remove_dots(R.path); }
        else {
          r.branch = 5;
          std::string merged;
          if (B.hasAuth && B.path.empty()) merged = "/" + R.path;
          else {
            size_t p = B.path.rfind('/');
            merged = (p == std::string::npos ? std::string() : B.path.substr(0, p + 1)) + R.path;
          }
          pre = merged; T.path = m_remove_dots(merged);
        }
        T.hasQuery = R.hasQuery; T.query = R.query;
      }
      m_copy_auth(T, B);
    }
    T.hasScheme = true; T.scheme = B.scheme;
  }
  T.hasFrag = R.hasFrag; T.frag = R.frag;
  r.dotsInvolved = has_dot_or_empty_seg(pre);
  r.needsGuard = !T.hasAuth && T.path.compare(0, 2, "//") == 0;
  return r;
}


// ===========================================================================
// M_norm: RFC 3986 6.2.2 syntax-based normalisation as C08 states it.
// ===========================================================================
inline bool m_is_unreserved(int c) {
  return (c >= 'a' && c <= 'z') || (c >= 'A' && c <= 'Z') || (c >= '0' && c <= '9') || c == '-' || c == '.' || c == '_' || c == '~';
}
inline int m_hexval(char c) {
  if (c >= '0' && c <= '9') return c - '0';
  if (c >= 'a' && c <= 'f') return c - 'a' + 10;
  if (c >= 'A' && c <= 'F') return c - 'A' + 10;
  return -1;
}
// triplet repair: decode unreserved, upper-case the hex digits of the others
inline std::string m_fixpct(const std::string &s) {
  std::string o;
  for (size_t i = 0; i < s.size(); i++) {
    if (s[i] == '%' && i + 2 < s.size() + 0 && m_hexval(s[i + 1]) >= 0 && m_hexval(s[i + 2]) >= 0) {
      int code = m_hexval(s[i + 1]) * 16 + m_hexval(s[i + 2]);
      if (m_is_unreserved(code)) o += (char)code;
      else { static const char H[] = "0123456789ABCDEF"; o += '%'; o += H[code >> 4]; o += H[code & 15]; }
      i += 2;
    } else o += s[i];
  }
  return o;
}
inline std::string m_lower(const std::string &s) {
  std::string o = s;
  for (char &c : o) if (c >= 'A' && c <= 'Z') c = (char)(c + 32);
  return o;
}
// reg-name: triplet repair, then every letter that is not a hex digit of a remaining triplet in lower case
inline std::string m_norm_regname(const std::string &h) {
  std::string f = m_fixpct(h), o;
  for (size_t i = 0; i < f.size(); i++) {
    if (f[i] == '%' && i + 2 < f.size()) { o += f.substr(i, 3); i += 2; }
    else o += (f[i] >= 'A' && f[i] <= 'Z') ? (char)(f[i] + 32) : f[i];
  }
  return o;
}
struct MNormPath {
  std::string primary;                 // expected path text
  std::vector<std::string> also;       // other legitimate spellings in the corner shapes
  int corner = 0;                      // 0 none, 1 relative path vanished, 2 empty first segment exposed, 3 ':' first segment exposed, 4 host-less '//' start
  bool dotsRemoved = false;
  bool accepts(const std::string &p) const {
    if (p == primary) return true;
    for (auto &a : also) if (a == p) return true;
    return false;
  }
};
inline bool m_is_relative_path_ref(const MUri &u) { return !u.hasScheme && !u.hasAuth && (u.path.empty() || u.path[0] != '/'); }
inline MNormPath m_norm_path(const MUri &u) {
  MNormPath r;
  bool rel = m_is_relative_path_ref(u);
  std::string fixed;
  {
    if (u.path.empty()) { r.primary = ""; return r; }
    bool rooted = u.path[0] == '/';
    std::vector<std::string> segs = split_slash(rooted ? u.path.substr(1) : u.path);
    for (auto &sg : segs) sg = m_fixpct(sg);
    fixed = (rooted ? "/" : "") + join_slash(segs);
  }
  std::string nd = m_remove_dots(fixed, rel);
  r.dotsRemoved = nd != fixed;
  r.primary = nd;
  if (u.hasAuth) return r;
  // guard shapes: dot removal must not let the path be read as something else
  bool rooted = !nd.empty() && nd[0] == '/';
  if (rel) {
    if (nd.empty() && !fixed.empty()) { r.corner = 1; r.primary = ""; r.also = {".", "./"}; return r; }
    std::vector<std::string> sg = split_slash(nd);
    std::vector<std::string> osg = split_slash(fixed);
    if (!nd.empty() && sg[0].empty()) { r.corner = 2; r.primary = "./" + nd; r.also = {}; return r; }
    if (!nd.empty() && sg[0].find(':') != std::string::npos) {
      r.corner = 3; r.primary = "./" + nd;
      return r;
    }
    return r;
  }
  if (nd.compare(0, 2, "//") == 0) {
    r.corner = 4;
    r.primary = rooted && fixed[0] == '/' ? "/." + nd : "./" + nd;
    r.also = {"/." + nd, "./" + nd};
    return r;
  }
  return r;
}
enum { M_SCHEME = 1, M_USER = 2, M_HOST = 4, M_PATH = 8, M_QUERY = 16, M_FRAG = 32 };
struct MNormed { MUri u; MNormPath path; };
inline MNormed m_normalize(const MUri &in, unsigned mask) {
  MNormed r;
  MUri &u = r.u;
  u = in;
  if ((mask & M_SCHEME) && u.hasScheme) u.scheme = m_lower(u.scheme);
  if ((mask & M_USER) && u.hasAuth && u.hasUser) u.user = m_fixpct(u.user);
  if ((mask & M_HOST) && u.hasAuth) {
    if (u.hostKind == HK_FUT) u.host = m_lower(u.host);
    else if (u.hostKind == HK_REG) u.host = m_norm_regname(u.host);
  }
  if (mask & M_PATH) { r.path = m_norm_path(in); u.path = r.path.primary; }
  else { r.path.primary = in.path; }
  if ((mask & M_QUERY) && u.hasQuery) u.query = m_fixpct(u.query);
  if ((mask & M_FRAG) && u.hasFrag) u.frag = m_fixpct(u.frag);
  return r;
}

}  // namespace vf
