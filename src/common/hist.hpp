// G_hist: operation histories over a pool of URI objects, and World<A>, the
// executor that keeps every history *legal* for a borrowed-memory API: an object
// whose memory other live objects borrow is never modified in place or released.
// Ops (text form, one per Fields entry "op.<k>"):
//   P:<text>          parse <text> into a new object
//   R:i:j:opt         new = uriAddBaseUriEx(ref=i, base=j, opt)
//   B:i:j:dr          new = uriRemoveBaseUri(src=i, base=j, domainRoot=dr)
//   N:i:mask          uriNormalizeSyntaxEx(i, mask) in place
//   O:i               uriMakeOwner(i)
//   S:i  E:i:j  M:i   observers: toString, equals, maskRequired
//   W:i               new = parse(toString(i)): the library's own output is the next call's input (own buffer)
//   D:i               uriFreeUriMembers(i) twice (only when nothing borrows from i); i is dead afterwards
// Every output structure is handed to the library filled with 0xA5 bytes: a member the producing call forgets to set
// stays visible (a zeroed output would hide it).
#pragma once
#include <memory>
#include <set>
#include "gen.hpp"
#include "parse_common.hpp"

namespace vf {

struct Op {
  char kind = 'P';
  int i = 0, j = 0, arg = 0;
  std::string text;
  std::string str() const {
    switch (kind) {
      case 'P': return "P:" + esc(text);
      case 'Q': return "Q:" + esc(text);  // (C13) dissect + compose + free of a query text
      case 'R': case 'B': return std::string(1, kind) + ":" + std::to_string(i) + ":" + std::to_string(j) + ":" + std::to_string(arg);
      case 'N': return "N:" + std::to_string(i) + ":" + std::to_string(arg);
      case 'E': return "E:" + std::to_string(i) + ":" + std::to_string(j);
      default: return std::string(1, kind) + ":" + std::to_string(i);
    }
  }
  static Op parse(const std::string &s) {
    Op o;
    if (s.empty()) return o;
    o.kind = s[0];
    std::string rest = s.size() > 2 ? s.substr(2) : "";
    if (o.kind == 'P' || o.kind == 'Q') { o.text = unesc8(rest); return o; }
    int v[3] = {0, 0, 0}, k = 0;
    size_t p = 0;
    while (k < 3 && p <= rest.size()) {
      size_t e = rest.find(':', p);
      if (e == std::string::npos) e = rest.size();
      v[k++] = atoi(rest.substr(p, e - p).c_str());
      p = e + 1;
    }
    o.i = v[0];
    if (o.kind == 'N') o.arg = v[1]; else { o.j = v[1]; o.arg = v[2]; }
    return o;
  }
};

inline void ops_to_fields(Fields &f, const std::vector<Op> &ops) {
  f.seti("n", (long long)ops.size());
  for (size_t k = 0; k < ops.size(); k++) f.kv.emplace_back("op." + std::to_string(k), ops[k].str());
}
inline std::vector<Op> ops_from_fields(const Fields &f) {
  std::vector<Op> ops;
  long long n = f.geti("n");
  for (long long k = 0; k < n; k++) {
    const std::string *v = f.find("op." + std::to_string(k));
    if (v) ops.push_back(Op::parse(*v));
  }
  return ops;
}

// History generator. flavor: segment vocabulary; withObservers: include S/E/M ops.
inline std::vector<Op> g_history(Tape &t, int flavor = SEG_ANY, bool withObservers = false, int maxSteps = 8) {
  std::vector<Op> ops;
  GenUri b = g_base(t, t.chance(4, 5), flavor);
  Op p0; p0.kind = 'P'; p0.text = b.text(); ops.push_back(p0);
  Op p1; p1.kind = 'P';
  switch (t.weighted({5, 3, 2, 3, 1})) {
    case 4: {  // the base itself with another query / fragment (identical path)
      GenUri s = b;
      s.hasQuery = !b.hasQuery; s.query = "sq";
      s.hasFrag = t.coin(); s.frag = "sf";
      p1.text = s.text();
      break;
    }
    case 0: p1.text = g_ref(t, b, nullptr, flavor).text(); break;
    case 3: {  // a sibling of the base: same scheme and authority, the base's directory plus one to three fresh segments
      GenUri s = b;
      size_t cut = s.path.rfind('/');
      std::string dir = cut == std::string::npos ? std::string() : s.path.substr(0, cut + 1);
      if (dir.empty() && s.hasAuth) dir = "/";
      int n = t.range(1, 3);
      std::string tail;
      for (int i = 0; i < n; i++) { if (i) tail += '/'; tail += g_segment(t, flavor); }
      s.path = dir + tail;
      if (!s.hasAuth && s.path.compare(0, 2, "//") == 0) s.path = "/." + s.path.substr(1);
      if (!s.hasAuth && !s.hasScheme && !s.path.empty() && s.path[0] != '/' && has_colon(s.path.substr(0, s.path.find('/')))) s.path = "./" + s.path;
      if (!s.hasAuth && s.path.empty()) s.path = "a";
      s.hasQuery = t.chance(1, 4); if (s.hasQuery) s.query = "sq";
      s.hasFrag = false;
      p1.text = s.text();
      break;
    }
    case 1: { GenUri s = g_base(t, true, flavor); if (t.coin()) { s.scheme = b.scheme; s.hasScheme = true; } if (t.coin()) { s.hasAuth = b.hasAuth; s.auth = b.auth; if (s.hasAuth && !s.path.empty() && s.path[0] != '/') s.path = "/" + s.path; } p1.text = s.text(); break; }
    default: p1.text = g_uri(t, flavor);
  }
  ops.push_back(p1);
  int pool = 2;
  int steps = t.range(1, maxSteps);
  for (int s = 0; s < steps; s++) {
    Op o;
    int k = t.weighted({6, 6, 8, 4, 2, withObservers ? 6 : 0, 3, 1});
    switch (k) {
      case 6: o.kind = 'W'; o.i = (int)t.below(pool); pool++; break;
      case 7: o.kind = 'D'; o.i = (int)t.below(pool); break;
      case 0: o.kind = 'R'; o.i = (int)t.below(pool); o.j = (int)t.below(pool); o.arg = (int)t.below(2); pool++; break;
      case 1: o.kind = 'B'; o.i = (int)t.below(pool); o.j = (int)t.below(pool); o.arg = (int)t.below(2); pool++; break;
      case 2: o.kind = 'N'; o.i = (int)t.below(pool); o.arg = t.chance(1, 2) ? 63 : (t.chance(1, 2) ? 8 : (int)t.below(64));
        // one mask in twelve has bits beyond the documented six (what a later version of the header may define, or -1 for "all")
        if (t.below(12) == 11) { static const int wide[] = {64, 127, 64 + 8, 128 + 4, 0x7fffffff, -1, 1 << 20, 255}; o.arg = wide[t.below(8)]; }
        break;
      case 3: o.kind = 'O'; o.i = (int)t.below(pool); break;
      case 4: o.kind = 'P'; o.text = t.coin() ? g_ref(t, b, nullptr, flavor).text() : g_uri(t, flavor); pool++; break;
      default: {
        int w = (int)t.below(3);
        o.kind = "SEM"[w]; o.i = (int)t.below(pool); o.j = (int)t.below(pool);
      }
    }
    ops.push_back(o);
  }
  return ops;
}

// ---------------------------------------------------------------------------
template <class A> struct World {
  using Ch = typename A::Ch;
  struct Obj {
    typename A::Uri uri;
    bool live = false;          // holds members that must be released
    bool valid = false;         // last producing call succeeded
    std::unique_ptr<Ch[]> buf;  // source text of a parsed object (exact size)
    size_t buflen = 0;
    std::set<int> borrows;      // indices of objects whose memory (text buffer or owned blocks) this one points into
    UriMemoryManager *mm = nullptr;
    std::string origin;         // how it came to be: P/W/R/B, then every in-place step that succeeded on it (N, O)
  };
  std::vector<std::unique_ptr<Obj>> objs;
  UriMemoryManager *defaultMm = nullptr;  // manager for new objects (nullptr = libc)
  bool audit = false;                     // bracket read-only arguments and source texts (C12)
  std::string auditError;
  std::string all_texts() {
    std::string o;
    for (auto &p : objs) { if (p->buf) o.append((const char *)p->buf.get(), p->buflen * sizeof(Ch)); o += '|'; }
    return o;
  }
  struct Bracket {
    World *w; std::string f1, f2, texts; const typename A::Uri *a, *b; const char *what;
    Bracket(World *w_, const typename A::Uri *a_, const typename A::Uri *b_, const char *what_) : w(w_), a(a_), b(b_), what(what_) {
      if (!w->audit) return;
      if (a) f1 = freeze<A>(*a);
      if (b) f2 = freeze<A>(*b);
      texts = w->all_texts();
    }
    ~Bracket() {
      if (!w->audit || !w->auditError.empty()) return;
      if (a && freeze<A>(*a) != f1) w->auditError = std::string(what) + ": first read-only URI argument was modified";
      else if (b && freeze<A>(*b) != f2) w->auditError = std::string(what) + ": second read-only URI argument was modified";
      else if (w->all_texts() != texts) w->auditError = std::string(what) + ": caller-supplied input text was modified";
    }
  };

  int size() const { return (int)objs.size(); }
  Obj &at(int i) { return *objs[(size_t)i]; }
  bool borrowed_by_others(int i) {
    for (int k = 0; k < size(); k++)
      if (k != i && at(k).live && at(k).borrows.count(i)) return true;
    return false;
  }
  int newobj() {
    objs.emplace_back(new Obj());
    objs.back()->mm = defaultMm;
    memset(&objs.back()->uri, 0xA5, sizeof objs.back()->uri);  // every producing entry point must initialise its output itself
    return size() - 1;
  }

  struct Res { int rc = 0; int produced = -1; bool skipped = false; };

  Res parse(const std::string &text) {
    Res r;
    int k = newobj();
    Obj &o = at(k);
    std::basic_string<Ch> s = widen<Ch>(text);
    o.buflen = s.size();
    o.buf.reset(new Ch[o.buflen]);
    if (o.buflen) memcpy(o.buf.get(), s.data(), o.buflen * sizeof(Ch));
    const Ch *ep = nullptr;
    r.rc = A::ParseSingleUriExMm(&o.uri, o.buf.get(), o.buf.get() + o.buflen, &ep, o.mm);
    o.live = true;
    o.valid = r.rc == 0;
    o.borrows = {k};
    o.origin = "P";
    r.produced = o.valid ? k : -1;
    return r;
  }
  std::set<int> deps_of(int i) {
    // memory an object's ranges may point into: its own blocks/text, plus whatever it borrows
    std::set<int> d = at(i).borrows;
    d.insert(i);
    return d;
  }
  Res resolve(int i, int j, int opt) {
    Res r;
    if (!at(i).valid || !at(j).valid) { r.skipped = true; return r; }
    int k = newobj();
    Obj &o = at(k);
    { Bracket br(this, &at(i).uri, &at(j).uri, "uriAddBaseUri");
    r.rc = A::AddBaseUriExMm(&o.uri, &at(i).uri, &at(j).uri, (UriResolutionOptions)opt, o.mm); }
    o.live = true;
    o.valid = r.rc == 0;
    if (o.valid) { o.borrows = deps_of(i); for (int x : deps_of(j)) o.borrows.insert(x); o.borrows.erase(k); r.produced = k; }
    o.origin = "R";
    return r;
  }
  Res removebase(int i, int j, int dr) {
    Res r;
    if (!at(i).valid || !at(j).valid) { r.skipped = true; return r; }
    int k = newobj();
    Obj &o = at(k);
    { Bracket br(this, &at(i).uri, &at(j).uri, "uriRemoveBaseUri");
    r.rc = A::RemoveBaseUriMm(&o.uri, &at(i).uri, &at(j).uri, dr ? URI_TRUE : URI_FALSE, o.mm); }
    o.live = true;
    o.valid = r.rc == 0;
    if (o.valid) { o.borrows = deps_of(i); for (int x : deps_of(j)) o.borrows.insert(x); o.borrows.erase(k); r.produced = k; }
    o.origin = "B";
    return r;
  }
  // in-place operations are only legal when nobody borrows this object's memory
  Res normalize(int i, unsigned mask) {
    Res r;
    if (!at(i).valid || borrowed_by_others(i)) { r.skipped = true; return r; }
    Obj &o = at(i);
    { Bracket br(this, nullptr, nullptr, "uriNormalizeSyntax");
    r.rc = A::NormalizeSyntaxExMm(&o.uri, mask, o.mm); }
    if (r.rc != 0) { o.valid = false; return r; }
    if (o.uri.owner) o.borrows.clear();
    if (mask) o.origin += 'N';
    r.produced = i;
    return r;
  }
  Res makeowner(int i) {
    Res r;
    if (!at(i).valid || borrowed_by_others(i)) { r.skipped = true; return r; }
    Obj &o = at(i);
    { Bracket br(this, nullptr, nullptr, "uriMakeOwner");
    r.rc = A::MakeOwnerMm(&o.uri, o.mm); }
    if (r.rc != 0) { o.valid = false; return r; }
    o.borrows.clear();
    o.origin += 'O';
    r.produced = i;
    return r;
  }
  // the text the library writes for i is parsed as a new, independent object
  Res textround(int i) {
    Res r;
    if (!at(i).valid) { r.skipped = true; return r; }
    std::string t;
    bool ok;
    { Bracket br(this, &at(i).uri, nullptr, "uriToString/uriToStringCharsRequired"); ok = to_string<A>(at(i).uri, &t); }
    if (!ok) { r.skipped = true; return r; }
    r = parse(t);
    objs.back()->origin = "W";
    return r;
  }
  Res dispose(int i) {
    Res r;
    Obj &o = at(i);
    if (!o.live || borrowed_by_others(i)) { r.skipped = true; return r; }
    r.rc = A::FreeUriMembersMm(&o.uri, o.mm);
    int again = A::FreeUriMembersMm(&o.uri, o.mm);  // "freeing URI members repeatedly is harmless"
    if (r.rc == 0) r.rc = again;
    o.live = false; o.valid = false; o.borrows.clear();
    return r;
  }
  Res exec(const Op &op) {
    int n = size();
    auto ix = [&](int v) { return n ? ((v % n) + n) % n : 0; };
    switch (op.kind) {
      case 'P': return parse(op.text);
      case 'R': if (!n) break; return resolve(ix(op.i), ix(op.j), op.arg & 1);
      case 'B': if (!n) break; return removebase(ix(op.i), ix(op.j), op.arg & 1);
      case 'N': if (!n) break; return normalize(ix(op.i), (unsigned)op.arg);
      case 'O': if (!n) break; return makeowner(ix(op.i));
      case 'W': if (!n) break; return textround(ix(op.i));
      case 'D': if (!n) break; return dispose(ix(op.i));
      case 'S': if (!n || !at(ix(op.i)).valid) break; { Bracket br(this, &at(ix(op.i)).uri, nullptr, "uriToString/uriToStringCharsRequired"); std::string t; to_string<A>(at(ix(op.i)).uri, &t); } break;
      case 'E': if (!n || !at(ix(op.i)).valid || !at(ix(op.j)).valid) break; { Bracket br(this, &at(ix(op.i)).uri, &at(ix(op.j)).uri, "uriEqualsUri"); A::EqualsUri(&at(ix(op.i)).uri, &at(ix(op.j)).uri); } break;
      case 'M': if (!n || !at(ix(op.i)).valid) break; { Bracket br(this, &at(ix(op.i)).uri, nullptr, "uriNormalizeSyntaxMaskRequired(Ex)"); unsigned m = 0; A::NormalizeSyntaxMaskRequired(&at(ix(op.i)).uri); A::NormalizeSyntaxMaskRequiredEx(&at(ix(op.i)).uri, &m); } break;
      default: break;
    }
    Res r; r.skipped = true; return r;
  }
  // overwrite and free every caller-owned source text (ASan flags any later access)
  void scribble_sources() {
    for (auto &p : objs) if (p->buf) { if (p->buflen) memset(p->buf.get(), 0xFF, p->buflen * sizeof(Ch)); p->buf.reset(); }
  }
  // release every object except `keep`
  void release_others(int keep) {
    bool progress = true;
    while (progress) {
      progress = false;
      for (int k = size() - 1; k >= 0; k--) {
        Obj &o = at(k);
        if (k == keep || !o.live) continue;
        bool borrowed = false;
        for (int q = 0; q < size(); q++) if (q != k && q != keep && at(q).live && at(q).borrows.count(k)) borrowed = true;
        if (borrowed) continue;
        A::FreeUriMembersMm(&o.uri, o.mm);
        o.live = false; o.valid = false; o.borrows.clear();
        progress = true;
      }
    }
  }
  // release objects so that nothing is released while something still borrows from it
  void release_all() {
    bool progress = true;
    while (progress) {
      progress = false;
      for (int k = size() - 1; k >= 0; k--) {
        Obj &o = at(k);
        if (!o.live || borrowed_by_others(k)) continue;
        A::FreeUriMembersMm(&o.uri, o.mm);
        o.live = false; o.valid = false;
        o.borrows.clear();
        progress = true;
      }
    }
    for (auto &o : objs) if (o->live) { A::FreeUriMembersMm(&o->uri, o->mm); o->live = false; }
  }
  ~World() { release_all(); }

  // --- library-made operands for the single-call properties (C06, C08, C09, C10) ---------------------------------
  // The text of object k, provided the object reads back from that text exactly as it is held (C07 is what promises
  // that; an object for which it does not hold is not used as an operand, and counted).
  bool faithful_text(int k, std::string *text) {
    if (!at(k).valid) return false;
    if (!to_string<A>(at(k).uri, text)) return false;
    Parsed<A> q;
    parse_via<A>(q, PE_SINGLE_EX, widen<Ch>(*text));
    if (q.rc != 0) return false;
    return snapshot<A>(q.uri).sameAs(snapshot<A>(at(k).uri));
  }
  // valid objects, those that are more than a plain parse first (latest first), then the parsed ones
  std::vector<int> made_first() {
    std::vector<int> v;
    for (int k = size() - 1; k >= 0; k--) if (at(k).valid && at(k).origin != "P") v.push_back(k);
    for (int k = size() - 1; k >= 0; k--) if (at(k).valid && at(k).origin == "P") v.push_back(k);
    return v;
  }
  std::vector<int> valid_objects() {
    std::vector<int> v;
    for (int k = 0; k < size(); k++) if (at(k).valid) v.push_back(k);
    return v;
  }
};

}  // namespace vf
