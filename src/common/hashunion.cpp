// Union of 64-bit hash dumps written by the workers: prints the number of distinct values.
#include <algorithm>
#include <cstdint>
#include <cstdio>
#include <vector>
int main(int argc, char **argv) {
  std::vector<uint64_t> all;
  for (int i = 1; i < argc; i++) {
    FILE *f = fopen(argv[i], "rb");
    if (!f) continue;
    uint64_t buf[4096];
    size_t n;
    while ((n = fread(buf, 8, 4096, f)) > 0) all.insert(all.end(), buf, buf + n);
    fclose(f);
  }
  std::sort(all.begin(), all.end());
  all.erase(std::unique(all.begin(), all.end()), all.end());
  printf("%zu\n", all.size());
  return 0;
}
