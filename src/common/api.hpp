// Api<char> / Api<wchar_t>: every public function pair behind one name, so a
// harness is written once and instantiated for both character types.
#pragma once
#include <string>
#include <uriparser/Uri.h>
#include <uriparser/UriIp4.h>
#include "verif.hpp"

namespace vf {

template <class C> struct Api;

#define VF_DEFAPI(CH, S)                                                                            \
  template <> struct Api<CH> {                                                                      \
    using Ch = CH;                                                                                  \
    using Str = std::basic_string<CH>;                                                              \
    using Uri = UriUri##S;                                                                          \
    using Seg = UriPathSegment##S;                                                                  \
    using Range = UriTextRange##S;                                                                  \
    using State = UriParserState##S;                                                                \
    using QL = UriQueryList##S;                                                                     \
    static const char *name() { return #S; }                                                        \
    static int ParseUriEx(State *s, const Ch *f, const Ch *a) { return uriParseUriEx##S(s, f, a); } \
    static int ParseUri(State *s, const Ch *t) { return uriParseUri##S(s, t); }                     \
    static int ParseSingleUri(Uri *u, const Ch *t, const Ch **e) { return uriParseSingleUri##S(u, t, e); } \
    static int ParseSingleUriEx(Uri *u, const Ch *f, const Ch *a, const Ch **e) {                   \
      return uriParseSingleUriEx##S(u, f, a, e);                                                    \
    }                                                                                               \
    static int ParseSingleUriExMm(Uri *u, const Ch *f, const Ch *a, const Ch **e, UriMemoryManager *m) { \
      return uriParseSingleUriExMm##S(u, f, a, e, m);                                               \
    }                                                                                               \
    static int ParseIpFourAddress(unsigned char *o, const Ch *f, const Ch *a) { return uriParseIpFourAddress##S(o, f, a); } \
    static void FreeUriMembers(Uri *u) { uriFreeUriMembers##S(u); }                                 \
    static int FreeUriMembersMm(Uri *u, UriMemoryManager *m) { return uriFreeUriMembersMm##S(u, m); } \
    static Ch *EscapeEx(const Ch *f, const Ch *a, Ch *o, UriBool s2p, UriBool nb) {                 \
      return uriEscapeEx##S(f, a, o, s2p, nb);                                                      \
    }                                                                                               \
    static Ch *Escape(const Ch *in, Ch *o, UriBool s2p, UriBool nb) { return uriEscape##S(in, o, s2p, nb); } \
    static const Ch *UnescapeInPlaceEx(Ch *io, UriBool p2s, UriBreakConversion bc) {                \
      return uriUnescapeInPlaceEx##S(io, p2s, bc);                                                  \
    }                                                                                               \
    static const Ch *UnescapeInPlace(Ch *io) { return uriUnescapeInPlace##S(io); }                  \
    static int AddBaseUri(Uri *d, const Uri *r, const Uri *b) { return uriAddBaseUri##S(d, r, b); } \
    static int AddBaseUriEx(Uri *d, const Uri *r, const Uri *b, UriResolutionOptions o) {           \
      return uriAddBaseUriEx##S(d, r, b, o);                                                        \
    }                                                                                               \
    static int AddBaseUriExMm(Uri *d, const Uri *r, const Uri *b, UriResolutionOptions o, UriMemoryManager *m) { \
      return uriAddBaseUriExMm##S(d, r, b, o, m);                                                   \
    }                                                                                               \
    static int RemoveBaseUri(Uri *d, const Uri *s, const Uri *b, UriBool dr) {                      \
      return uriRemoveBaseUri##S(d, s, b, dr);                                                      \
    }                                                                                               \
    static int RemoveBaseUriMm(Uri *d, const Uri *s, const Uri *b, UriBool dr, UriMemoryManager *m) { \
      return uriRemoveBaseUriMm##S(d, s, b, dr, m);                                                 \
    }                                                                                               \
    static UriBool EqualsUri(const Uri *a, const Uri *b) { return uriEqualsUri##S(a, b); }          \
    static int ToStringCharsRequired(const Uri *u, int *n) { return uriToStringCharsRequired##S(u, n); } \
    static int ToString(Ch *d, const Uri *u, int max, int *w) { return uriToString##S(d, u, max, w); } \
    static unsigned NormalizeSyntaxMaskRequired(const Uri *u) { return uriNormalizeSyntaxMaskRequired##S(u); } \
    static int NormalizeSyntaxMaskRequiredEx(const Uri *u, unsigned *m) {                           \
      return uriNormalizeSyntaxMaskRequiredEx##S(u, m);                                             \
    }                                                                                               \
    static int NormalizeSyntaxEx(Uri *u, unsigned m) { return uriNormalizeSyntaxEx##S(u, m); }      \
    static int NormalizeSyntaxExMm(Uri *u, unsigned m, UriMemoryManager *mm) {                      \
      return uriNormalizeSyntaxExMm##S(u, m, mm);                                                   \
    }                                                                                               \
    static int NormalizeSyntax(Uri *u) { return uriNormalizeSyntax##S(u); }                         \
    static int UnixFilenameToUriString(const Ch *f, Ch *u) { return uriUnixFilenameToUriString##S(f, u); } \
    static int WindowsFilenameToUriString(const Ch *f, Ch *u) { return uriWindowsFilenameToUriString##S(f, u); } \
    static int UriStringToUnixFilename(const Ch *u, Ch *f) { return uriUriStringToUnixFilename##S(u, f); } \
    static int UriStringToWindowsFilename(const Ch *u, Ch *f) { return uriUriStringToWindowsFilename##S(u, f); } \
    static int ComposeQueryCharsRequired(const QL *q, int *n) { return uriComposeQueryCharsRequired##S(q, n); } \
    static int ComposeQueryCharsRequiredEx(const QL *q, int *n, UriBool s2p, UriBool nb) {          \
      return uriComposeQueryCharsRequiredEx##S(q, n, s2p, nb);                                      \
    }                                                                                               \
    static int ComposeQuery(Ch *d, const QL *q, int max, int *w) { return uriComposeQuery##S(d, q, max, w); } \
    static int ComposeQueryEx(Ch *d, const QL *q, int max, int *w, UriBool s2p, UriBool nb) {       \
      return uriComposeQueryEx##S(d, q, max, w, s2p, nb);                                           \
    }                                                                                               \
    static int ComposeQueryMalloc(Ch **d, const QL *q) { return uriComposeQueryMalloc##S(d, q); }   \
    static int ComposeQueryMallocEx(Ch **d, const QL *q, UriBool s2p, UriBool nb) {                 \
      return uriComposeQueryMallocEx##S(d, q, s2p, nb);                                             \
    }                                                                                               \
    static int ComposeQueryMallocExMm(Ch **d, const QL *q, UriBool s2p, UriBool nb, UriMemoryManager *m) { \
      return uriComposeQueryMallocExMm##S(d, q, s2p, nb, m);                                        \
    }                                                                                               \
    static int DissectQueryMalloc(QL **d, int *n, const Ch *f, const Ch *a) {                       \
      return uriDissectQueryMalloc##S(d, n, f, a);                                                  \
    }                                                                                               \
    static int DissectQueryMallocEx(QL **d, int *n, const Ch *f, const Ch *a, UriBool p2s, UriBreakConversion bc) { \
      return uriDissectQueryMallocEx##S(d, n, f, a, p2s, bc);                                       \
    }                                                                                               \
    static int DissectQueryMallocExMm(QL **d, int *n, const Ch *f, const Ch *a, UriBool p2s,        \
                                      UriBreakConversion bc, UriMemoryManager *m) {                 \
      return uriDissectQueryMallocExMm##S(d, n, f, a, p2s, bc, m);                                  \
    }                                                                                               \
    static void FreeQueryList(QL *q) { uriFreeQueryList##S(q); }                                    \
    static int FreeQueryListMm(QL *q, UriMemoryManager *m) { return uriFreeQueryListMm##S(q, m); }  \
    static int MakeOwner(Uri *u) { return uriMakeOwner##S(u); }                                     \
    static int MakeOwnerMm(Uri *u, UriMemoryManager *m) { return uriMakeOwnerMm##S(u, m); }         \
  };

VF_DEFAPI(char, A)
VF_DEFAPI(wchar_t, W)
#undef VF_DEFAPI

// widen / narrow between the canonical byte string and the API's string type
template <class C> inline std::basic_string<C> widen(const std::string &s) {
  std::basic_string<C> o;
  o.reserve(s.size());
  for (unsigned char c : s) o += (C)c;
  return o;
}
template <class C> inline std::basic_string<C> widen32(const u32s &s) {
  std::basic_string<C> o;
  for (char32_t c : s) o += (C)c;
  return o;
}
template <class C> inline std::string narrow(const C *f, const C *a) {
  std::string o;
  for (; f < a; f++) o += (char)(unsigned char)(*f & 0xff);
  return o;
}
template <class C> inline std::string narrow(const std::basic_string<C> &s) {
  return narrow<C>(s.data(), s.data() + s.size());
}
template <class C> inline bool narrowable(const C *f, const C *a) {
  for (; f < a; f++)
    if ((unsigned long)(*f) > 0xff) return false;
  return true;
}

}  // namespace vf
