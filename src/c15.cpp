// C15  A manager completed from malloc/free alone behaves as a correct allocator.
// Stateful, model-based: generated sequences of malloc/calloc/realloc/reallocarray/
// free on a table of live blocks, against the obvious map model; invariants after
// every step (patterns intact, blocks disjoint, calloc zeroed, prefix preserved,
// overflow -> NULL+ENOMEM, backend ledger exact).
#include <cerrno>
#include <unistd.h>
#include <sys/mman.h>
#include <map>
#include <algorithm>
#include "observe.hpp"

using namespace vf;

static const size_t SZMAX = (size_t)-1;
static size_t pick_size(Tape &t) {
  switch (t.weighted({10, 2, 1, 1, 1, 1, 1, 1, 1})) {
    case 8: return t.chance(1, 3) ? 70000 + t.below(3) : t.coin() ? 200000 + t.below(70000) : (size_t)(1u << 20) + t.below(1u << 20);  // up to 2 MiB  // large blocks: shrinking them crosses any "slack" threshold
    case 0: return t.below(65);
    case 1: return 4096 + t.below(3);
    case 2: return 0;
    case 3: return SZMAX;
    case 4: return SZMAX - 7;
    case 5: return SZMAX - 8;
    case 6: return t.coin() ? SZMAX / 2 + 1 : (SZMAX / 3) * 2 + 2 + t.below(16);  // x + x/2 wraps for the latter
    default: return (16u << 20) + 1;  // refused by the backend
  }
}
static std::string zs(size_t v) { return std::to_string((unsigned long long)v); }
static Fields gen(Tape &t) {
  Fields f;
  int n = t.range(1, 40);
  f.seti("n", n);
  for (int i = 0; i < n; i++) {
    std::string op;
    int idx = t.chance(1, 8) ? -1 : (int)t.below(16);
    switch (t.weighted({5, 3, 6, 3, 4})) {
      case 0: op = "m:" + zs(pick_size(t)); break;
      case 1: {
        size_t a, b;
        switch (t.weighted({6, 1, 1, 1})) {
          case 0: a = t.below(20); b = t.below(40); break;
          case 1: a = SZMAX / 2 + 1; b = 2; break;
          case 2: a = (size_t)1 << 32; b = (size_t)1 << 32; break;
          default: a = 3; b = SZMAX / 2; break;
        }
        if (t.coin()) std::swap(a, b);
        op = "c:" + zs(a) + ":" + zs(b);
        break;
      }
      case 2: op = "r:" + std::to_string(idx) + ":" + zs(pick_size(t)); break;
      case 3: {
        size_t a, b;
        switch (t.weighted({6, 1, 1, 1})) {
          case 0: a = t.below(20); b = t.below(40); break;
          case 1: a = SZMAX / 2 + 1; b = 2; break;
          case 2: a = (size_t)1 << 33; b = (size_t)1 << 31; break;
          default: a = 0; b = SZMAX; break;
        }
        if (t.coin()) std::swap(a, b);
        op = "a:" + std::to_string(idx) + ":" + zs(a) + ":" + zs(b);
        break;
      }
      default: op = "f:" + std::to_string(idx);
    }
    f.kv.emplace_back("op." + std::to_string(i), op);
    f.seti("mgr." + std::to_string(i), t.chance(2, 3) ? 0 : 1);  // which of two completed managers serves a fresh allocation
  }
  // backend fault plan: a sparse bit mask over the first 64 backend requests
  uint64_t mask = 0;
  if (t.chance(1, 2)) { int k = t.range(1, 4); for (int i = 0; i < k; i++) mask |= 1ull << t.below(40); }
  f.kv.emplace_back("faultmask", std::to_string((unsigned long long)mask));
  f.seti("selftest", t.chance(7, 8) ? 0 : 1);
  // the backend may offer more than malloc and free (its own calloc / realloc / reallocarray): the completion must not depend on it
  f.seti("backendextras", t.chance(2, 3) ? 0 : 1 + (int)t.below(7));
  return f;
}

struct Blk { unsigned char *p; size_t size; unsigned char pat; int mgr; };

static std::vector<size_t> nums(const std::string &s) {
  std::vector<size_t> v;
  size_t p = 2;
  while (p <= s.size()) {
    size_t e = s.find(':', p);
    if (e == std::string::npos) e = s.size();
    std::string x = s.substr(p, e - p);
    v.push_back(x == "-1" ? SZMAX : (size_t)strtoull(x.c_str(), nullptr, 10));
    p = e + 1;
  }
  return v;
}

// Slots of the backend other than malloc and free: present in some cases, but decoys - they do nothing and return NULL.
// The documentation of uriCompleteMemoryManager says the wrapper "uses backend->malloc, memcpy, and backend->free"; a
// backend "that offers only malloc and free" may well carry stale or stub pointers in the other slots.
static int &decoy_calls() { static int n = 0; return n; }
static void *decoy_calloc(UriMemoryManager *, size_t, size_t) { decoy_calls()++; errno = ENOMEM; return nullptr; }
static void *decoy_realloc(UriMemoryManager *, void *, size_t) { decoy_calls()++; errno = ENOMEM; return nullptr; }
static void *decoy_reallocarray(UriMemoryManager *, void *, size_t, size_t) { decoy_calls()++; errno = ENOMEM; return nullptr; }

static Verdict check_inner(const Fields &f);
static Verdict check(const Fields &f) {
  decoy_calls() = 0;
  Verdict v = check_inner(f);
  if (decoy_calls() != 0 && v.kind != Verdict::FAIL)
    return Verdict::fail("the completed manager called a slot of its backend other than malloc and free (" + std::to_string(decoy_calls()) + " call(s)); a backend that offers only malloc and free does not serve those");
  return v;
}
static Verdict check_inner(const Fields &f) {
  // two managers completed from two different backends live side by side: a block belongs to the manager that made it
  LedgerMM backends[2];
  UriMemoryManager ms[2];
  for (int k = 0; k < 2; k++) {
    LedgerMM &be = backends[k];
    int extras = (int)f.geti("backendextras");
    be.mm.calloc = (extras & 1) ? &decoy_calloc : nullptr;
    be.mm.realloc = (extras & 2) ? &decoy_realloc : nullptr;
    be.mm.reallocarray = (extras & 4) ? &decoy_reallocarray : nullptr;  // extras == 0: malloc + free only
    be.refuse_above = 16u << 20;
    be.fail_mask = strtoull(f.get("faultmask").c_str(), nullptr, 10);
    be.tag = k ? "backend-1" : "backend-0";
    memset(&ms[k], 0, sizeof ms[k]);
    UriMemoryManager beBefore = be.mm;
    VF_REQUIRE(uriCompleteMemoryManager(&ms[k], &be.mm) == 0, "uriCompleteMemoryManager failed on a malloc/free backend");
    VF_REQUIRE(memcmp(&beBefore, &be.mm, sizeof beBefore) == 0, "uriCompleteMemoryManager modified the backend manager it was given as input");
    VF_REQUIRE(ms[k].malloc && ms[k].calloc && ms[k].realloc && ms[k].reallocarray && ms[k].free, "completed manager lacks a function");
  }
  if (f.geti("selftest")) {
    // the library's own manager self-test on a completed manager (no backend faults): passes, ledger ends empty
    uint64_t keep = backends[0].fail_mask;
    backends[0].fail_mask = 0;
    VF_REQUIRE(uriTestMemoryManager(&ms[0]) == 0, "uriTestMemoryManager rejects a manager completed from malloc/free");
    VF_REQUIRE(backends[0].outstanding() == 0 && backends[0].bad_free == 0, "uriTestMemoryManager left the completed manager's backend unbalanced");
    backends[0].fail_mask = keep;
    backends[0].reset_counts();
  }
  std::vector<Blk> live;
  unsigned char nextPat = 1;
  size_t maxLive = 0;
  bool growAfterShrink = false, backendFailOnGrow = false;
  std::vector<char> shrunk;  // parallel to live: was this block shrunk before?
  long long n = f.geti("n");
  auto verify = [&](const char *when, long long step) -> Verdict {
    for (auto &b : live) {
      // small blocks byte for byte after every step; large ones at both ends and at a stride (they are compared in
      // full where it matters: the common prefix after each realloc)
      size_t stride = b.size > 4096 ? 97 : 1;
      for (size_t i = 0; i < b.size; i += (i < 256 || i + 256 >= b.size) ? 1 : stride)
        if (b.p[i] != b.pat) VF_FAIL("step %lld (%s): block of %zu bytes lost its contents at offset %zu", step, when, b.size, i);
    }
    std::vector<std::pair<uintptr_t, size_t>> r;
    for (auto &b : live) r.emplace_back((uintptr_t)b.p, b.size);
    std::sort(r.begin(), r.end());
    for (size_t i = 1; i < r.size(); i++) {
      if (r[i].first == r[i - 1].first) VF_FAIL("step %lld (%s): two live blocks share the address %p", step, when, (void *)r[i].first);
      if (r[i - 1].first + r[i - 1].second > r[i].first) VF_FAIL("step %lld (%s): live blocks overlap", step, when);
    }
    for (int k = 0; k < 2; k++) {
      size_t mine = 0;
      for (auto &b : live) if (b.mgr == k) mine++;
      if (backends[k].bad_free) VF_FAIL("step %lld (%s): %s saw %s", step, when, backends[k].tag, backends[k].bad_free_what.c_str());
      if (backends[k].outstanding() != mine)
        VF_FAIL("step %lld (%s): %s holds %zu blocks, the caller %zu of that manager", step, when, backends[k].tag, backends[k].outstanding(), mine);
    }
    return Verdict::pass();
  };
  auto fill = [&](Blk &b) { b.pat = nextPat++; if (!nextPat) nextPat = 1; if (b.size) memset(b.p, b.pat, b.size); };
  auto overflow = [](size_t a, size_t b) { return a != 0 && (a * b) / a != b; };

  for (long long step = 0; step < n; step++) {
    std::string op = f.get("op." + std::to_string(step));
    if (op.size() < 2) continue;
    std::vector<size_t> a = nums(op);
    stats().sub_evaluations++;
    errno = 0;
    int mk = (int)f.geti("mgr." + std::to_string(step)) & 1;
    if ((op[0] == 'r' || op[0] == 'a' || op[0] == 'f') && !live.empty() && a.at(0) != SZMAX) mk = live[a.at(0) % live.size()].mgr;  // an existing block goes back to its own manager
    UriMemoryManager &m = ms[mk];
    LedgerMM &backend = backends[mk];
    uint64_t failedBefore = backend.failed;
    switch (op[0]) {
      case 'm': {
        size_t s = a.at(0);
        void *p = m.malloc(&m, s);
        if (s > SZMAX - sizeof(size_t)) { VF_REQUIRE(p == nullptr, "step %lld: malloc(%zu) must fail (size overflow)", step, s); VF_REQUIRE(errno == ENOMEM, "step %lld: malloc overflow without ENOMEM", step); break; }
        if (p) { Blk b{(unsigned char *)p, s, 0, mk}; fill(b); live.push_back(b); shrunk.push_back(0); }
        else VF_REQUIRE(backend.failed > failedBefore || s + sizeof(size_t) > backend.refuse_above, "step %lld: malloc(%zu) returned NULL although the backend did not fail", step, s);
        break;
      }
      case 'c': {
        size_t x = a.at(0), y = a.at(1);
        void *p = m.calloc(&m, x, y);
        if (overflow(x, y)) { VF_REQUIRE(p == nullptr && errno == ENOMEM, "step %lld: calloc(%zu,%zu) overflows: expected NULL with ENOMEM (errno=%d)", step, x, y, errno); break; }
        size_t s = x * y;
        if (s > SZMAX - sizeof(size_t)) { VF_REQUIRE(p == nullptr, "step %lld: calloc total too large must fail", step); break; }
        if (p) {
          for (size_t i = 0; i < s; i++) VF_REQUIRE(((unsigned char *)p)[i] == 0, "step %lld: calloc memory not zeroed at %zu", step, i);
          Blk b{(unsigned char *)p, s, 0, mk}; fill(b); live.push_back(b); shrunk.push_back(0);
        } else VF_REQUIRE(backend.failed > failedBefore || s + sizeof(size_t) > backend.refuse_above, "step %lld: calloc returned NULL although the backend did not fail", step);
        break;
      }
      case 'r': case 'a': {
        bool arr = op[0] == 'a';
        size_t sel = a.at(0);
        size_t s;
        bool ovf = false;
        if (arr) { ovf = overflow(a.at(1), a.at(2)); s = a.at(1) * a.at(2); } else s = a.at(1);
        long idx = (sel == SZMAX || live.empty()) ? -1 : (long)(sel % live.size());
        void *old = idx >= 0 ? live[(size_t)idx].p : nullptr;
        void *q = arr ? m.reallocarray(&m, old, a.at(1), a.at(2)) : m.realloc(&m, old, s);
        if (ovf) { VF_REQUIRE(q == nullptr && errno == ENOMEM, "step %lld: reallocarray(%zu,%zu) overflows: expected NULL with ENOMEM (errno=%d)", step, a.at(1), a.at(2), errno); break; }
        if (idx < 0) {  // realloc(NULL, s) behaves as malloc(s)
          if (s > SZMAX - sizeof(size_t)) { VF_REQUIRE(q == nullptr, "step %lld: realloc(NULL, huge) must fail", step); break; }
          if (q) { Blk b{(unsigned char *)q, s, 0, mk}; fill(b); live.push_back(b); shrunk.push_back(0); }
          else VF_REQUIRE(backend.failed > failedBefore || s + sizeof(size_t) > backend.refuse_above, "step %lld: realloc(NULL,%zu) returned NULL although the backend did not fail", step, s);
          break;
        }
        Blk &b = live[(size_t)idx];
        if (s == 0) {  // realloc(p, 0) frees and returns NULL
          VF_REQUIRE(q == nullptr, "step %lld: realloc(p, 0) returned a pointer", step);
          live.erase(live.begin() + idx); shrunk.erase(shrunk.begin() + idx);
          break;
        }
        if (q == nullptr) {  // failure: old block intact and still live (verified below)
          VF_REQUIRE(s > SZMAX - sizeof(size_t) || backend.failed > failedBefore || s + sizeof(size_t) > backend.refuse_above,
                     "step %lld: realloc to %zu returned NULL although the backend did not fail", step, s);
          if (s > b.size && backend.failed > failedBefore) backendFailOnGrow = true;
          break;
        }
        size_t keep = std::min(b.size, s);
        for (size_t i = 0; i < keep; i++) VF_REQUIRE(((unsigned char *)q)[i] == b.pat, "step %lld: realloc %zu -> %zu lost the common prefix at %zu", step, b.size, s, i);
        if (s > b.size && shrunk[(size_t)idx]) growAfterShrink = true;
        if (s < b.size) shrunk[(size_t)idx] = 1;
        b.p = (unsigned char *)q; b.size = s;
        fill(b);
        break;
      }
      case 'f': {
        size_t sel = a.at(0);
        if (sel == SZMAX || live.empty()) { m.free(&m, nullptr); break; }
        size_t idx = sel % live.size();
        m.free(&m, live[idx].p);
        live.erase(live.begin() + (long)idx); shrunk.erase(shrunk.begin() + (long)idx);
        break;
      }
      default: break;
    }
    maxLive = std::max(maxLive, live.size());
    Verdict v = verify(op.c_str(), step);
    if (v.kind != Verdict::PASS) return v;
  }
  while (!live.empty()) { ms[live.back().mgr].free(&ms[live.back().mgr], live.back().p); live.pop_back(); }
  for (int k = 0; k < 2; k++) {
    VF_REQUIRE(backends[k].outstanding() == 0, "%zu blocks of %s still allocated after the caller freed everything", backends[k].outstanding(), backends[k].tag);
    VF_REQUIRE(backends[k].bad_free == 0, "%s saw %s", backends[k].tag, backends[k].bad_free_what.c_str());
  }
  Stats &S = stats();
  if (growAfterShrink) S.hit("grow_after_shrink");
  if (backendFailOnGrow) S.hit("backend_failure_during_growth");
  if (backends[0].failed || backends[1].failed) S.hit("sequences_with_backend_failure");
  if (maxLive >= 3 && (growAfterShrink || backendFailOnGrow)) { std::string k = f.text(); S.nontrivial(k, k.substr(0, 400)); }
  return Verdict::pass();
}

// ---- blocks beyond 4 GiB (fixed probe, one shard): a size that does not fit 32 bits must be remembered in full ----------
// The backend hands out fresh, untouched mappings (MAP_NORESERVE), so only the pages the probe writes - and the pages the
// emulated realloc copies into - become resident.
struct MapBackend {
  UriMemoryManager mm;
  std::map<void *, size_t> live;
  uint64_t bad = 0;
  MapBackend() { memset(&mm, 0, sizeof mm); mm.malloc = &s_malloc; mm.free = &s_free; mm.userData = this; }
  static void *s_malloc(UriMemoryManager *m, size_t n) {
    MapBackend *self = (MapBackend *)m->userData;
    void *p = mmap(nullptr, n ? n : 1, PROT_READ | PROT_WRITE, MAP_PRIVATE | MAP_ANONYMOUS | MAP_NORESERVE, -1, 0);
    if (p == MAP_FAILED) { errno = ENOMEM; return nullptr; }
    self->live[p] = n ? n : 1;
    return p;
  }
  static void s_free(UriMemoryManager *m, void *p) {
    MapBackend *self = (MapBackend *)m->userData;
    if (!p) return;
    auto it = self->live.find(p);
    if (it == self->live.end()) { self->bad++; return; }
    munmap(p, it->second);
    self->live.erase(it);
  }
};
static Verdict huge_block_probe() {
  MapBackend be;
  UriMemoryManager m;
  VF_REQUIRE(uriCompleteMemoryManager(&m, &be.mm) == 0, "uriCompleteMemoryManager failed on the mapping backend");
  const size_t G4 = (size_t)1 << 32;
  if (sizeof(size_t) < 8) return Verdict::pass();
  // the emulated realloc copies 4 GiB: only attempted where that much memory is plainly free
  if ((double)sysconf(_SC_AVPHYS_PAGES) * (double)sysconf(_SC_PAGESIZE) < 12.0 * 1024 * 1024 * 1024) { stats().relax("huge_block_probe:less_than_12GiB_free"); return Verdict::pass(); }
  size_t s1 = G4 + 64;
  unsigned char *p = (unsigned char *)m.malloc(&m, s1);
  if (!p) { stats().relax("huge_block_probe:no_address_space"); return Verdict::pass(); }
  auto mark = [&](unsigned char *b, size_t size) { for (size_t off : {(size_t)0, (size_t)4096, G4 - 32, G4 + 8}) for (size_t i = 0; i < 24 && off + i < size; i++) b[off + i] = (unsigned char)(0x40 + ((off >> 7) + i) % 64); };
  auto marked = [&](unsigned char *b, size_t size) -> long { for (size_t off : {(size_t)0, (size_t)4096, G4 - 32, G4 + 8}) for (size_t i = 0; i < 24 && off + i < size; i++) if (b[off + i] != (unsigned char)(0x40 + ((off >> 7) + i) % 64)) return (long)(off + i); return -1; };
  mark(p, s1);
  // grow: the whole old size is the common prefix
  unsigned char *q = (unsigned char *)m.realloc(&m, p, s1 + 8192);
  if (!q) { m.free(&m, p); stats().relax("huge_block_probe:grow_refused"); return Verdict::pass(); }
  long bad = marked(q, s1);
  VF_REQUIRE(bad < 0, "a block of 4 GiB + 64 bytes grown by realloc lost its contents at offset %ld", bad);
  // shrink below 4 GiB and grow again beyond it
  unsigned char *r = (unsigned char *)m.realloc(&m, q, G4 - 16);
  VF_REQUIRE(r != nullptr, "shrinking a 4 GiB block failed");
  for (size_t i = 0; i < 24; i++) VF_REQUIRE(r[4096 + i] == (unsigned char)(0x40 + ((4096 >> 7) + i) % 64), "shrinking a 4 GiB block lost the common prefix");
  m.free(&m, r);
  VF_REQUIRE(be.live.empty() && be.bad == 0, "4 GiB probe: backend ledger unbalanced (%zu live, %llu bad frees)", be.live.size(), (unsigned long long)be.bad);
  return Verdict::pass();
}
static Verdict enumerate(int tier, int shard, int nshards, Fields *failing) {
  (void)tier; (void)nshards;
  if (shard != 0) return Verdict::pass();
  { Fields c; c.seti("huge_block_probe", 1); note_case(c); }
  Verdict v = huge_block_probe();
  stats().evaluations++;
  if (v.kind == Verdict::FAIL) { failing->seti("huge_block_probe", 1); return v; }
  stats().nontrivial("huge_block_probe", "malloc(4 GiB + 64) -> realloc(+8192) -> realloc(4 GiB - 16) -> free through a completed manager over a mapping backend");
  return Verdict::pass();
}
static Verdict check_dispatch(const Fields &f) { return f.has("huge_block_probe") ? huge_block_probe() : check(f); }

const Harness vf::HARNESS = {"C15", gen, check_dispatch, enumerate, nullptr};
