// C04  Recomposition reproduces the parsed text.
// Oracle: round trip. uriToString(parse(s)) == s, except that an IPv6 literal is
// written in eight-group lower-case form of the same address (computed by the
// model from the text). Re-parsing gives an equal URI; an owned copy gives the
// same text.
#include "gen.hpp"
#include "parse_common.hpp"

using namespace vf;

// degenerate combinations named by the property are over-weighted
static std::string g_degenerate(Tape &t) {
  static const std::vector<std::string> pool = {
      "//", "//@", "//:", "//@:", "//h:", "//u@", "//:80", "s://", "s://@h", "s://h:/", "///", "////", "//h//", "/", "?", "#", "?#", "/?#",
      "s:", "s:/", "s:?", "s:#", "//1.2.3.4", "//1.2.3.4:", "//u@1.2.3.4:9/", "//255.255.255.255", "//0.0.0.0", "s:////a", "/a//", "a//",
      "//[::]", "//[::1]:", "//[1:2:3:4:5:6:7:8]", "//[v1.x]", "//[V1F.x:y]:1", "s:a", "s:a:b", "./a:b", "//h?", "//h#", "/.//a", "s:/.//a"};
  return t.pick(pool);
}
static Fields gen(Tape &t) {
  Fields f;
  LongMode lm(t);
  if (lm.on()) f.seti("long", 1);
  int src = t.weighted({6, 3, 1});
  std::string s;
  if (src == 0) s = g_uri(t);
  else if (src == 1) s = g_degenerate(t);
  else {
    u32s n = g_noise(t, false);
    if (all_narrow(n) && (uriref_matcher().run(n).accepted || t.coin())) for (char32_t c : n) s += (char)c;  // half of the rejected texts are kept: they must not parse
    else { s = g_uri(t); src = 0; }
  }
  f.set("text", s);
  f.seti("src", src);
  return f;
}

template <class A> static Verdict check_type(const std::string &text, const std::string &expected, const MUri &m) {
  using Ch = typename A::Ch;
  std::basic_string<Ch> s = widen<Ch>(text);
  Parsed<A> p;
  parse_via<A>(p, PE_SINGLE_EX, s);
  VF_REQUIRE(p.rc == 0, "%s: rc=%d on a grammar-valid text", A::name(), p.rc);
  std::string out;
  bool nok = true;
  VF_REQUIRE(to_string<A>(p.uri, &out, &nok), "%s: uriToString failed on a parsed URI", A::name());
  VF_REQUIRE(nok, "%s: recomposed text contains characters outside 0..255", A::name());
  VF_REQUIRE(out == expected, "%s: recomposed '%s', expected '%s'", A::name(), esc(out).c_str(), esc(expected).c_str());
  // parse the produced text again: equal URI, equal components
  Parsed<A> q;
  parse_via<A>(q, PE_SINGLE_EX, widen<Ch>(out));
  VF_REQUIRE(q.rc == 0, "%s: recomposed text does not parse (rc=%d)", A::name(), q.rc);
  VF_REQUIRE(A::EqualsUri(&p.uri, &q.uri) == URI_TRUE, "%s: re-parsed URI not equal (uriEqualsUri)", A::name());
  VF_REQUIRE(A::EqualsUri(&q.uri, &p.uri) == URI_TRUE, "%s: re-parsed URI not equal (uriEqualsUri, swapped)", A::name());
  Snap sp = snapshot<A>(p.uri), sq = snapshot<A>(q.uri);
  VF_REQUIRE(sp.sameAs(sq), "%s: re-parsed components differ: %s vs %s", A::name(), sp.describe().c_str(), sq.describe().c_str());
  // owned copy: same text, and still the same after the source buffer is gone
  VF_REQUIRE(A::MakeOwner(&p.uri) == 0, "%s: uriMakeOwner failed", A::name());
  VF_REQUIRE(p.uri.owner == URI_TRUE, "%s: owner flag not set by uriMakeOwner", A::name());
  if (p.n) memset(p.buf.get(), 0xEE, p.n * sizeof(Ch));
  p.buf.reset();
  std::string out2;
  VF_REQUIRE(to_string<A>(p.uri, &out2), "%s: uriToString failed on the owned copy", A::name());
  VF_REQUIRE(out2 == expected, "%s: owned copy recomposes to '%s', expected '%s'", A::name(), esc(out2).c_str(), esc(expected).c_str());
  // ... and still compares equal to the second parse (nothing of it may depend on the released buffer)
  VF_REQUIRE(A::EqualsUri(&p.uri, &q.uri) == URI_TRUE && A::EqualsUri(&q.uri, &p.uri) == URI_TRUE, "%s: owned copy no longer equals the re-parsed URI once its source buffer is gone", A::name());
  // a second text produced from the second parse is a fixed point
  std::string out3;
  VF_REQUIRE(to_string<A>(q.uri, &out3) && out3 == out, "%s: recomposition is not a fixed point", A::name());
  (void)m;
  // allocation failures: whatever a parse or a make-owner still reports as success must recompose to the same text
  LedgerMM mm;
  for (int k = 1; k <= 24; k++) {
    Parsed<A> f;
    mm.reset_counts(); mm.reset_plan(); mm.fail_at = (uint64_t)k;
    parse_via<A>(f, PE_SINGLE_MM, s, &mm);
    bool bit = mm.failed > 0;
    mm.reset_plan();
    if (!bit) break;
    if (f.rc != 0) continue;
    stats().hit("fault_bit_but_parse_reports_success");
    std::string o;
    VF_REQUIRE(to_string<A>(f.uri, &o) && o == expected, "%s: parse with allocation %d failing reports success but recomposes to '%s', expected '%s'", A::name(), k, esc(o).c_str(), esc(expected).c_str());
    VF_REQUIRE(A::EqualsUri(&f.uri, &q.uri) == URI_TRUE && snapshot<A>(f.uri).sameAs(snapshot<A>(q.uri)), "%s: parse with allocation %d failing reports success but the URI differs from the parse of its own text", A::name(), k);
  }
  for (int k = 1; k <= 24; k++) {
    Parsed<A> f;
    mm.reset_counts(); mm.reset_plan();
    parse_via<A>(f, PE_SINGLE_MM, s, &mm);
    if (f.rc != 0) break;
    mm.reset_counts(); mm.fail_at = (uint64_t)k;
    int orc = A::MakeOwnerMm(&f.uri, &mm.mm);
    bool bit = mm.failed > 0;
    mm.reset_plan();
    if (!bit) break;
    if (orc != 0) continue;
    stats().hit("fault_bit_but_make_owner_reports_success");
    std::string o;
    VF_REQUIRE(to_string<A>(f.uri, &o) && o == expected, "%s: make-owner with allocation %d failing reports success but recomposes to '%s', expected '%s'", A::name(), k, esc(o).c_str(), esc(expected).c_str());
    VF_REQUIRE(A::EqualsUri(&f.uri, &q.uri) == URI_TRUE, "%s: make-owner with allocation %d failing reports success but the URI differs from the parse of its own text", A::name(), k);
  }
  return Verdict::pass();
}

// "For every accepted input ..." presupposes that only members of the grammar are accepted: a text outside it that parses
// has no RFC 3986 reading to reproduce (what it recomposes to cannot be "the parsed text" of any URI reference).
template <class A> static bool parses(const std::string &text) {
  Parsed<A> p;
  parse_via<A>(p, PE_SINGLE_EX, widen<typename A::Ch>(text));
  return p.rc == 0;
}
static Verdict check_text(const std::string &text, int src) {
  if (!uriref_matcher().matches(text)) {
    if (text.find('\0') != std::string::npos) return Verdict::discard();
    if (parses<Api<char>>(text) || parses<Api<wchar_t>>(text)) return Verdict::fail("'" + esc(text) + "' is not a URI reference (RFC 3986 Appendix A) and is accepted: there is no parsed text to reproduce");
    stats().hit("outside_the_grammar_and_refused");
    return Verdict::discard();
  }
  MUri m = m_split(text);
  std::string expected = m_recompose(m);
  if (!(m.hasAuth && m.hostKind == HK_IP6)) {
    // without an IPv6 literal the statement demands the input character for character
    if (expected != text) return Verdict::fail("ORACLE: model recomposition differs from the input without IPv6 host");
  } else {
    // sanity of the exception: everything outside the bracket is unchanged
    size_t lb = text.find('['), rb = text.find(']');
    std::string want = text.substr(0, lb + 1) + ip6_text(m.ip.data()) + text.substr(rb);
    if (want != expected) return Verdict::fail("ORACLE: IPv6 substitution mismatch in the model");
  }
  Verdict v = check_type<Api<char>>(text, expected, m);
  if (v.kind != Verdict::PASS) return v;
  v = check_type<Api<wchar_t>>(text, expected, m);
  if (v.kind != Verdict::PASS) return v;
  Stats &S = stats();
  S.hit("src=" + std::to_string(src));
  if (m.hasAuth) {
    if (m.host.empty()) S.hit("deg=empty_host");
    if (m.hasPort && m.port.empty()) S.hit("deg=empty_port");
    if (m.hasUser && m.user.empty()) S.hit("deg=empty_userinfo");
    if (m.hostKind == HK_IP4) S.hit("deg=ipv4");
    if (m.hostKind == HK_IP6) S.hit("deg=ipv6");
    if (m.path.compare(0, 2, "//") == 0) S.hit("deg=leading_empty_segment");
  }
  if (m.path == "/" ) S.hit("deg=lone_slash");
  if (m.hasQuery && m.query.empty()) S.hit("deg=empty_query");
  if (m.hasFrag && m.frag.empty()) S.hit("deg=empty_fragment");
  int comps = m.hasScheme + m.hasAuth + (!m.path.empty()) + m.hasQuery + m.hasFrag;
  if (m.hasAuth || comps >= 2) S.nontrivial(text, esc(text));
  return Verdict::pass();
}
static Verdict check(const Fields &f) { return check_text(f.get("text"), (int)f.geti("src")); }

static Verdict enumerate(int tier, int shard, int nshards, Fields *failing) {
  static const char alpha[] = {'a', 'v', '0', '1', '2', '5', ':', '/', '?', '#', '[', ']', '@', '%', '.'};
  const int K = sizeof alpha;
  int maxLen = tier ? 6 : 5;
  uint64_t idx = 0;
  for (int len = 0; len <= maxLen; len++) {
    uint64_t total = 1;
    for (int i = 0; i < len; i++) total *= K;
    for (uint64_t v = 0; v < total; v++, idx++) {
      if ((int)(idx % (uint64_t)nshards) != shard) continue;
      std::string s;
      uint64_t x = v;
      for (int i = 0; i < len; i++) { s += alpha[x % K]; x /= K; }
      if (!uriref_matcher().matches(s)) continue;
      { Fields c; c.set("text", s); c.seti("src", 90); note_case(c); }
      Verdict r = check_text(s, 90);
      stats().evaluations++;
      if (r.kind == Verdict::FAIL) { failing->set("text", s); failing->seti("src", 90); return r; }
    }
  }
  return Verdict::pass();
}

static Fields from_bytes(const uint8_t *d, size_t n) {
  Fields f;
  f.set("text", std::string((const char *)d, n < 400 ? n : 400));
  f.seti("src", 99);
  return f;
}

const Harness vf::HARNESS = {"C04", gen, check, enumerate, nullptr, from_bytes};
