// C14  Any allocation failure is reported cleanly, without leak or corruption.
// Fault enumeration: for each generated (operation, input) a dry run counts the n
// allocation requests; then EVERY position k in 1..n is failed, in fail-once and
// fail-from-k-on mode, plus random bit-mask plans, each on fresh objects.
#include "gen.hpp"
#include "parse_common.hpp"

using namespace vf;

enum { OP_PARSE = 0, OP_RESOLVE, OP_REMOVEBASE, OP_NORMALIZE, OP_MAKEOWNER, OP_DISSECT, OP_COMPOSE, OP_NORM_RESOLVED, OP_COUNT };
static const char *opname(int o) {
  static const char *n[] = {"parse", "resolve", "create-reference", "normalize", "make-owner", "dissect-query", "compose-query", "normalize-resolved"};
  return n[o];
}

static std::string g_querytext(Tape &t) {
  static const std::vector<std::string> it = {"a=b", "k", "k=", "=v", "", "a%41=%0D%0A", "x+y=1+2", "==", "a=b=c", "%", "long_key_name=long_value"};
  std::string s;
  int n = t.range(0, 6);
  for (int i = 0; i < n; i++) { if (i) s += '&'; s += t.pick(it); }
  return s;
}
static Fields gen(Tape &t) {
  Fields f;
  int op = t.weighted({2, 3, 3, 4, 2, 2, 1, 2});
  f.seti("op", op);
  switch (op) {
    case OP_PARSE: f.set("text", g_uri(t)); break;
    case OP_RESOLVE: case OP_NORM_RESOLVED: { GenUri b = g_base(t, true); f.set("base", b.text()); f.set("text", g_ref(t, b).text()); f.seti("opt", t.below(2)); f.seti("mask", t.coin() ? 63 : t.below(64)); break; }
    case OP_REMOVEBASE: { GenUri S, B; int k; g_source_base(t, &S, &B, &k); f.set("text", S.text()); f.set("base", B.text()); f.seti("mode", t.below(2)); break; }
    case OP_NORMALIZE: f.set("text", g_uri(t)); f.seti("mask", t.coin() ? 63 : t.below(64)); f.seti("owned", t.below(2)); break;
    case OP_MAKEOWNER: f.set("text", g_uri(t)); break;
    case OP_DISSECT: f.set("text", g_querytext(t)); f.seti("p2s", t.below(2)); f.seti("bc", t.below(4)); f.seti("icnull", t.below(2)); break;
    default: {
      int n = t.range(1, 4); f.seti("n", n);
      bool longItems = t.chance(1, 4);  // worst-case size far above the composed size (several KiB of slack)
      for (int i = 0; i < n; i++) {
        f.set("k." + std::to_string(i), t.coin() ? "key" : "a b");
        if (t.coin()) f.set("v." + std::to_string(i), longItems ? std::string((size_t)t.range(600, 3000), t.coin() ? 'v' : ' ') : (t.coin() ? "v\n" : ""));
      }
    }
  }
  f.seti("maskplans", t.below(1u << 16));
  // the manager under test: a complete recording manager, or (one case in four) a manager completed by
  // uriCompleteMemoryManager from a malloc/free-only recording backend (emulated calloc / realloc / reallocarray)
  f.seti("completed", t.chance(3, 4) ? 0 : 1);
  return f;
}

struct Plan { int mode; uint64_t k; uint64_t mask; };  // mode 0 none, 1 fail-once at k, 2 fail-from k, 3 bit mask

template <class A> struct Run {
  using Ch = typename A::Ch;
  int rc = 0;
  std::string result;      // text of the produced/modified object (fault-free comparison)
  uint64_t requests = 0;
  bool bit = false;        // did the plan make a request fail?
  std::string err;         // violation text
};

// Executes the operation of case f once under the given plan, on fresh objects.
template <class A> static Run<A> run_once(const Fields &f, const Plan &plan) {
  using Ch = typename A::Ch;
  Run<A> r;
  int op = (int)f.geti("op");
  LedgerMM mm;      // the manager under test
  LedgerMM setup;   // builds read-only operands; never fails
  UriMemoryManager completed;
  UriMemoryManager *M = &mm.mm;
  if (f.geti("completed")) {
    mm.mm.calloc = nullptr; mm.mm.realloc = nullptr; mm.mm.reallocarray = nullptr;
    if (uriCompleteMemoryManager(&completed, &mm.mm) != 0) { r.err = "uriCompleteMemoryManager failed"; return r; }
    M = &completed;
  }
  auto arm = [&]() {
    mm.reset_counts(); mm.reset_plan();
    if (plan.mode == 1) mm.fail_at = plan.k; else if (plan.mode == 2) mm.fail_from = plan.k; else if (plan.mode == 3) mm.fail_mask = plan.mask;
  };
  auto disarm = [&]() { r.requests = mm.requests; r.bit = mm.failed > 0; mm.reset_plan(); };
  auto text_of = [&](const typename A::Uri &u) { std::string s; if (!to_string<A>(u, &s)) s = "<toString failed>"; return s; };
  auto ledger_ok = [&](const char *when) {
    if (mm.bad_free) r.err = std::string(when) + ": " + mm.bad_free_what;
    else if (mm.outstanding() != 0) r.err = std::string(when) + ": " + std::to_string(mm.outstanding()) + " block(s) left outstanding after the caller's cleanup";
  };
  auto holdtext = [](const std::string &s) { std::basic_string<Ch> w = widen<Ch>(s); std::unique_ptr<Ch[]> b(new Ch[w.size() + 1]); memcpy(b.get(), w.c_str(), (w.size() + 1) * sizeof(Ch)); return b; };

  if (op == OP_PARSE) {
    auto buf = holdtext(f.get("text"));
    size_t n = f.get("text").size();
    typename A::Uri u;
    memset(&u, 0xA5, sizeof u);
    const Ch *ep;
    arm();
    r.rc = A::ParseSingleUriExMm(&u, buf.get(), buf.get() + n, &ep, M);
    disarm();
    if (r.rc == 0) r.result = text_of(u);
    A::FreeUriMembersMm(&u, M);
    ledger_ok("parse");
    return r;
  }
  if (op == OP_DISSECT) {
    auto buf = holdtext(f.get("text"));
    size_t n = f.get("text").size();
    typename A::QL *ql = nullptr;
    int cnt = -1;
    arm();
    r.rc = A::DissectQueryMallocExMm(&ql, f.geti("icnull") ? nullptr : &cnt, buf.get(), buf.get() + n, f.geti("p2s") != 0, (UriBreakConversion)f.geti("bc"), M);
    disarm();
    if (r.rc == 0) {
      for (auto *w = ql; w; w = w->next) { size_t l = 0; while (w->key[l]) l++; r.result += narrow<Ch>(w->key, w->key + l) + (w->value ? "=" : "") + "&"; }
      A::FreeQueryListMm(ql, M);
    }
    // on failure nothing is to be cleaned up by the caller
    ledger_ok("dissect");
    return r;
  }
  if (op == OP_COMPOSE) {
    int n = (int)f.geti("n");
    std::vector<std::basic_string<Ch>> ks((size_t)n), vs((size_t)n);
    std::vector<typename A::QL> nodes((size_t)n);
    for (int i = 0; i < n; i++) {
      ks[(size_t)i] = widen<Ch>(f.get("k." + std::to_string(i)));
      vs[(size_t)i] = widen<Ch>(f.get("v." + std::to_string(i)));
      nodes[(size_t)i].key = ks[(size_t)i].c_str();
      nodes[(size_t)i].value = f.has("v." + std::to_string(i)) ? vs[(size_t)i].c_str() : nullptr;
      nodes[(size_t)i].next = i + 1 < n ? &nodes[(size_t)i + 1] : nullptr;
    }
    std::vector<char> frozen((const char *)nodes.data(), (const char *)nodes.data() + n * sizeof nodes[0]);
    Ch *out = nullptr;
    arm();
    r.rc = A::ComposeQueryMallocExMm(&out, nodes.data(), URI_TRUE, URI_TRUE, M);
    disarm();
    if (memcmp(frozen.data(), nodes.data(), frozen.size()) != 0) r.err = "compose: the read-only query list was modified";
    if (r.rc == 0) { size_t l = 0; while (out[l]) l++; r.result = narrow<Ch>(out, out + l); M->free(M, out); }
    if (r.err.empty()) ledger_ok("compose");
    return r;
  }
  // operations on URI objects
  auto b1 = holdtext(f.get("text"));
  size_t n1 = f.get("text").size();
  const Ch *ep;
  if (op == OP_NORMALIZE || op == OP_MAKEOWNER) {
    typename A::Uri u;
    if (A::ParseSingleUriExMm(&u, b1.get(), b1.get() + n1, &ep, M) != 0) { r.rc = -99; A::FreeUriMembersMm(&u, M); return r; }
    if (op == OP_NORMALIZE && f.geti("owned")) { if (A::MakeOwnerMm(&u, M) != 0) { r.err = "setup: make-owner failed"; return r; } }
    std::vector<Ch> srcCopy(b1.get(), b1.get() + n1);
    arm();
    r.rc = op == OP_NORMALIZE ? A::NormalizeSyntaxExMm(&u, (unsigned)f.geti("mask"), M) : A::MakeOwnerMm(&u, M);
    disarm();
    if (n1 && memcmp(srcCopy.data(), b1.get(), n1 * sizeof(Ch)) != 0) r.err = std::string(opname(op)) + ": the caller's input text was modified";
    if (r.rc == 0) r.result = text_of(u);
    A::FreeUriMembersMm(&u, M);
    if (r.err.empty()) ledger_ok(opname(op));
    return r;
  }
  // two-operand operations: operands are built with the setup manager and must stay bit-for-bit unchanged
  auto b2 = holdtext(f.get("base"));
  size_t n2 = f.get("base").size();
  typename A::Uri x, y, d;
  if (A::ParseSingleUriExMm(&x, b1.get(), b1.get() + n1, &ep, &setup.mm) != 0 || A::ParseSingleUriExMm(&y, b2.get(), b2.get() + n2, &ep, &setup.mm) != 0) {
    r.rc = -99;
    A::FreeUriMembersMm(&x, &setup.mm); A::FreeUriMembersMm(&y, &setup.mm);
    return r;
  }
  std::string fx = freeze<A>(x), fy = freeze<A>(y);
  memset(&d, 0xA5, sizeof d);
  if (op == OP_NORM_RESOLVED) {
    // a resolved object borrows from two texts and from library constants; normalise it under faults
    if (A::AddBaseUriExMm(&d, &x, &y, (UriResolutionOptions)f.geti("opt"), M) != 0) { r.rc = -99; A::FreeUriMembersMm(&d, M); A::FreeUriMembersMm(&x, &setup.mm); A::FreeUriMembersMm(&y, &setup.mm); return r; }
    arm();
    r.rc = A::NormalizeSyntaxExMm(&d, (unsigned)f.geti("mask"), M);
    disarm();
  } else {
    arm();
    r.rc = op == OP_RESOLVE ? A::AddBaseUriExMm(&d, &x, &y, (UriResolutionOptions)f.geti("opt"), M)
                            : A::RemoveBaseUriMm(&d, &x, &y, f.geti("mode") ? URI_TRUE : URI_FALSE, M);
    disarm();
  }
  if (freeze<A>(x) != fx || freeze<A>(y) != fy) r.err = std::string(opname(op)) + ": a read-only operand was modified";
  if (r.rc == 0) r.result = text_of(d);
  A::FreeUriMembersMm(&d, M);
  if (r.err.empty()) ledger_ok(opname(op));
  A::FreeUriMembersMm(&x, &setup.mm); A::FreeUriMembersMm(&y, &setup.mm);
  if (r.err.empty() && (setup.outstanding() || setup.bad_free)) r.err = "operand manager ledger unbalanced";
  return r;
}

static std::string classify(const Fields &f, const Plan &p) {
  (void)f; (void)p;
  return "";
}

template <class A> static Verdict check_type(const Fields &f, uint64_t *nOut, uint64_t *plans) {
  Run<A> base = run_once<A>(f, Plan{0, 0, 0});
  if (base.rc == -99) return Verdict::discard();
  if (!base.err.empty()) return Verdict::fail(std::string(A::name()) + ": fault-free run: " + base.err);
  uint64_t n = base.requests;
  *nOut = n;
  std::vector<Plan> ps;
  std::vector<uint64_t> ks;
  if (n <= 64) for (uint64_t k = 1; k <= n; k++) ks.push_back(k);
  else { for (uint64_t k = 1; k <= 32; k++) ks.push_back(k); for (uint64_t i = 0; i < 32; i++) ks.push_back(33 + (i * (n - 33)) / 31); }
  for (uint64_t k : ks) { ps.push_back(Plan{1, k, 0}); ps.push_back(Plan{2, k, 0}); }
  ps.push_back(Plan{1, n + 1, 0});  // a plan that cannot bite
  uint64_t x = 0x9E3779B97F4A7C15ull ^ (uint64_t)f.geti("maskplans");
  for (int i = 0; i < 8 && n >= 2; i++) { x ^= x << 13; x ^= x >> 7; x ^= x << 17; uint64_t m = x & (x >> 21) & ((n >= 64) ? ~0ull : ((1ull << n) - 1)); if (m) ps.push_back(Plan{3, 0, m}); }
  for (auto &p : ps) {
    Run<A> r = run_once<A>(f, p);
    stats().sub_evaluations++;
    (*plans)++;
    char where[96];
    snprintf(where, sizeof where, "%s, %s %s k=%llu mask=%llx of n=%llu", A::name(), opname((int)f.geti("op")), p.mode == 1 ? "fail-once" : p.mode == 2 ? "fail-from" : "bitmask",
             (unsigned long long)p.k, (unsigned long long)p.mask, (unsigned long long)n);
    if (!r.err.empty()) return Verdict::fail(std::string(where) + ": " + r.err, classify(f, p));
    if (r.bit) {
      if (r.rc != URI_ERROR_MALLOC) return Verdict::fail(std::string(where) + ": an allocation failed but rc=" + std::to_string(r.rc), classify(f, p));
    } else {
      if (r.rc != base.rc || r.result != base.result)
        return Verdict::fail(std::string(where) + ": the plan did not bite but the result differs from the fault-free one (rc " + std::to_string(r.rc) + " vs " + std::to_string(base.rc) + ")");
    }
  }
  return Verdict::pass();
}

static Verdict check(const Fields &f) {
  for (const char *k : {"text", "base"}) if (f.has(k) && f.geti("op") != OP_DISSECT && !uriref_matcher().matches(f.get(k))) return Verdict::discard();
  uint64_t n = 0, plans = 0;
  Verdict v = check_type<Api<char>>(f, &n, &plans);
  if (v.kind != Verdict::PASS) return v;
  v = check_type<Api<wchar_t>>(f, &n, &plans);
  if (v.kind != Verdict::PASS) return v;
  Stats &S = stats();
  std::string o = opname((int)f.geti("op"));
  S.hit("op=" + o);
  S.hit("n_requests[" + o + "]=" + (n == 0 ? "0" : n <= 2 ? "1-2" : n <= 5 ? "3-5" : n <= 10 ? "6-10" : n <= 20 ? "11-20" : ">20"));
  S.hit("fault_plans", plans);
  S.hit(f.geti("completed") ? "manager=completed_from_malloc_free" : "manager=complete");
  if (n >= 2) S.nontrivial(f.text(), o + ": " + esc(f.get("text")) + (f.has("base") ? " | " + esc(f.get("base")) : "") + " (n=" + std::to_string(n) + ")");
  return Verdict::pass();
}

const Harness vf::HARNESS = {"C14", gen, check, nullptr, nullptr};
