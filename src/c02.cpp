// C02  Parsed components are the exact RFC 3986 sub-ranges of the input.
// Oracle: M_split (Appendix B + host classification) on the same text; every
// non-empty range must be pointer-identical to input+offset, empty ones may be any
// zero-length range; host kind, IP bytes, absolutePath, segment list, tail, owner.
#include "gen.hpp"
#include "parse_common.hpp"

using namespace vf;

static Fields gen(Tape &t) {
  Fields f;
  LongMode lm(t);
  if (lm.on()) f.seti("long", 1);
  std::string s;
  int src = 0;
  if (t.chance(1, 5)) {
    u32s n = g_noise(t, false);
    if (all_narrow(n) && (uriref_matcher().run(n).accepted || t.coin())) { for (char32_t c : n) s += (char)c; src = 1; }  // half of the rejected texts are kept: they must not parse
    else s = g_uri(t);
  } else s = g_uri(t);
  f.set("text", s);
  f.seti("src", src);
  f.seti("locale", t.chance(15, 16) ? 0 : 1);  // one case in 16 runs under C.UTF-8
  return f;
}

template <class A>
static std::string cmp_range(const char *what, const typename A::Range &r, bool present, const std::string &text, size_t off,
                             const typename A::Ch *base) {
  char b[256];
  if (!present) {
    if (r.first != nullptr || r.afterLast != nullptr) { snprintf(b, sizeof b, "%s reported although absent", what); return b; }
    return "";
  }
  if (r.first == nullptr) { snprintf(b, sizeof b, "%s absent although present ('%s')", what, esc(text).c_str()); return b; }
  if ((size_t)(r.afterLast - r.first) != text.size()) {
    snprintf(b, sizeof b, "%s has length %td, expected %zu", what, r.afterLast - r.first, text.size());
    return b;
  }
  if (!text.empty() && r.first != base + off) {
    snprintf(b, sizeof b, "%s is not the input sub-range at offset %zu (offset %td)", what, off, r.first - base);
    return b;
  }
  if (narrow<typename A::Ch>(r.first, r.afterLast) != text) { snprintf(b, sizeof b, "%s text differs", what); return b; }
  return "";
}

template <class A> static Verdict check_type(const std::string &text, const MUri &m) {
  using Ch = typename A::Ch;
  std::basic_string<Ch> s = widen<Ch>(text);
  LedgerMM mm;
  bool nul = text.find('\0') != std::string::npos;
  auto verify = [&](Parsed<A> &p, const char *en) -> Verdict {
    const auto &u = p.uri;
    const Ch *base = p.first();
    std::string err;
#define C02_CHECK(x) do { err = (x); if (!err.empty()) VF_FAIL("%s/%s: %s", A::name(), en, err.c_str()); } while (0)
    C02_CHECK(wellformed<A>(u));
    VF_REQUIRE(u.owner == URI_FALSE, "%s/%s: owner flag set after parse", A::name(), en);
    C02_CHECK(cmp_range<A>("scheme", u.scheme, m.hasScheme, m.scheme, m.schemeOff, base));
    C02_CHECK(cmp_range<A>("userInfo", u.userInfo, m.hasAuth && m.hasUser, m.user, m.userOff, base));
    C02_CHECK(cmp_range<A>("hostText", u.hostText, m.hasAuth, m.host, m.hostOff, base));
    C02_CHECK(cmp_range<A>("portText", u.portText, m.hasAuth && m.hasPort, m.port, m.portOff, base));
    C02_CHECK(cmp_range<A>("query", u.query, m.hasQuery, m.query, m.queryOff, base));
    C02_CHECK(cmp_range<A>("fragment", u.fragment, m.hasFrag, m.frag, m.fragOff, base));
    // host classification and binary value
    int kind = u.hostData.ip4 ? HK_IP4 : u.hostData.ip6 ? HK_IP6 : u.hostData.ipFuture.first ? HK_FUT : u.hostText.first ? HK_REG : HK_NONE;
    VF_REQUIRE(kind == (m.hasAuth ? m.hostKind : HK_NONE), "%s/%s: host kind %d, expected %d", A::name(), en, kind, m.hasAuth ? m.hostKind : 0);
    if (kind == HK_IP4) VF_REQUIRE(memcmp(u.hostData.ip4->data, m.ip.data(), 4) == 0, "%s/%s: IPv4 bytes differ from the text's value", A::name(), en);
    if (kind == HK_IP6) VF_REQUIRE(memcmp(u.hostData.ip6->data, m.ip.data(), 16) == 0, "%s/%s: IPv6 bytes differ from the text's value", A::name(), en);
    if (kind == HK_FUT)
      VF_REQUIRE(u.hostData.ipFuture.first == u.hostText.first && u.hostData.ipFuture.afterLast == u.hostText.afterLast,
                 "%s/%s: ipFuture range is not the hostText range", A::name(), en);
    // path
    MPathRep pr = path_rep(m.path, m.hasAuth);
    VF_REQUIRE((u.absolutePath != 0) == pr.absolutePath, "%s/%s: absolutePath=%d, expected %d", A::name(), en, u.absolutePath, pr.absolutePath);
    VF_REQUIRE((u.pathHead != nullptr) == pr.hasSegs, "%s/%s: path list %s, expected %s", A::name(), en, u.pathHead ? "present" : "absent",
               pr.hasSegs ? "present" : "absent");
    size_t off = m.pathOff + ((m.path.size() && m.path[0] == '/') ? 1 : 0);
    size_t i = 0;
    for (auto *w = u.pathHead; w; w = w->next, i++) {
      VF_REQUIRE(i < pr.segs.size(), "%s/%s: more path segments than the grammar assigns (%zu)", A::name(), en, pr.segs.size());
      char nm[32];
      snprintf(nm, sizeof nm, "segment %zu", i);
      C02_CHECK(cmp_range<A>(nm, w->text, true, pr.segs[i], off, base));
      off += pr.segs[i].size() + 1;
    }
    VF_REQUIRE(i == pr.segs.size(), "%s/%s: %zu path segments, expected %zu", A::name(), en, i, pr.segs.size());
#undef C02_CHECK
    return Verdict::pass();
  };
  for (int e = 0; e < PE_COUNT; e++) {
    if (entry_needs_z(e) && nul) continue;
    Parsed<A> p;
    parse_via<A>(p, e, s, &mm);
    stats().sub_evaluations++;
    const char *en = entry_name(e);
    VF_REQUIRE(p.rc == 0, "%s/%s: rc=%d on a grammar-valid text", A::name(), en, p.rc);
    Verdict v = verify(p, en);
    if (v.kind != Verdict::PASS) return v;
    p.release();
    if (e == PE_SINGLE_MM) VF_REQUIRE(mm.outstanding() == 0 && mm.bad_free == 0, "%s/%s: manager ledger unbalanced", A::name(), en);
  }
  // the public dotted-quad converter on the host text itself (exact-size copy): success iff the grammar's IPv4address, same bytes
  if (m.hasAuth && (m.hostKind == HK_REG || m.hostKind == HK_IP4)) {
    std::basic_string<Ch> h = widen<Ch>(m.host);
    std::unique_ptr<Ch[]> hb(new Ch[h.size()]);
    if (!h.empty()) memcpy(hb.get(), h.data(), h.size() * sizeof(Ch));
    unsigned char oct[4] = {0xEE, 0xEE, 0xEE, 0xEE};
    int rc4 = A::ParseIpFourAddress(oct, hb.get(), hb.get() + h.size());
    stats().sub_evaluations++;
    if (m.hostKind == HK_IP4) VF_REQUIRE(rc4 == 0 && memcmp(oct, m.ip.data(), 4) == 0, "%s: uriParseIpFourAddress('%s'): rc=%d bytes %u.%u.%u.%u", A::name(), esc(m.host).c_str(), rc4, oct[0], oct[1], oct[2], oct[3]);
    else VF_REQUIRE(rc4 != 0, "%s: uriParseIpFourAddress accepts '%s', which is not an IPv4address", A::name(), esc(m.host).c_str());
  }
  // allocation failures: the k-th request of the parse fails once. A parse that reports the failure is out of scope
  // here; one that still reports success must deliver exactly the same components.
  for (int k = 1; k <= 24; k++) {
    Parsed<A> p;
    mm.reset_counts(); mm.reset_plan(); mm.fail_at = (uint64_t)k;
    parse_via<A>(p, PE_SINGLE_MM, s, &mm);
    bool bit = mm.failed > 0;
    mm.reset_plan();
    stats().sub_evaluations++;
    if (!bit) break;
    if (p.rc != 0) continue;
    stats().hit("fault_bit_but_success_reported");
    char en[64];
    snprintf(en, sizeof en, "ParseSingleUriExMm with allocation %d failing", k);
    Verdict v = verify(p, en);
    if (v.kind != Verdict::PASS) return v;
  }
  return Verdict::pass();
}

// wchar_t only: each character of the accepted text in turn is lifted beyond 255 by a value that keeps its low byte. The
// result contains a character no component may contain, so the grammar assigns it no components at all: a parse that
// succeeds reports components that are not the RFC's (it classified a narrowed character).
static Verdict lifted_variants(const std::string &text) {
  if (text.empty() || text.size() > 64) return Verdict::pass();
  static const wchar_t add[] = {0x100, 0x10000, 0x2100};
  for (size_t i = 0; i < text.size(); i++) {
    std::wstring w = widen<wchar_t>(text);
    w[i] = (wchar_t)(w[i] + add[(i + text.size()) % 3]);
    Parsed<Api<wchar_t>> p;
    parse_via<Api<wchar_t>>(p, PE_SINGLE_EX, w);
    stats().sub_evaluations++;
    if (p.rc == 0) {
      u32s t32; for (wchar_t c : w) t32 += (char32_t)c;
      return Verdict::fail("W: '" + esc(t32) + "' (character " + std::to_string(i) + " of an accepted text lifted beyond 255) parses successfully: a character no component may contain was reported inside a component");
    }
  }
  stats().hit("lifted_variants_checked");
  return Verdict::pass();
}

static Verdict check_text(const std::string &text) {
  if (!uriref_matcher().matches(text)) {
    // "On success ... the substrings the RFC 3986 grammar assigns": a text outside the grammar has none, so it must not succeed
    if (text.find('\0') != std::string::npos) return Verdict::discard();
    Parsed<Api<char>> pa; parse_via<Api<char>>(pa, PE_SINGLE_EX, widen<char>(text));
    Parsed<Api<wchar_t>> pw; parse_via<Api<wchar_t>>(pw, PE_SINGLE_EX, widen<wchar_t>(text));
    if (pa.rc == 0 || pw.rc == 0) return Verdict::fail("'" + esc(text) + "' is not a URI reference (RFC 3986 Appendix A) and parses successfully: the grammar assigns it no components");
    stats().hit("outside_the_grammar_and_refused");
    return Verdict::discard();
  }
  MUri m = m_split(text);
  Verdict v = check_type<Api<char>>(text, m);
  if (v.kind != Verdict::PASS) return v;
  v = check_type<Api<wchar_t>>(text, m);
  if (v.kind != Verdict::PASS) return v;
  if (fnv64(text) % 4 == 0) { v = lifted_variants(text); if (v.kind != Verdict::PASS) return v; }
  Stats &S = stats();
  static const char *hk[] = {"host=none", "host=regname", "host=ipv4", "host=ipv6", "host=ipvfuture"};
  S.hit(hk[m.hasAuth ? m.hostKind : 0]);
  MPathRep pr = path_rep(m.path, m.hasAuth);
  S.hit(pr.absolutePath ? "path=absolute" : m.path.empty() ? "path=empty" : m.hasAuth ? "path=abempty" : "path=rootless");
  int comps = m.hasScheme + m.hasAuth + (!m.path.empty()) + m.hasQuery + m.hasFrag + (m.hasAuth && m.hasUser) + (m.hasAuth && m.hasPort);
  if (comps >= 3 || (m.hasAuth && m.hostKind >= HK_IP4) || pr.segs.size() >= 2) S.nontrivial(text, esc(text));
  return Verdict::pass();
}
static Verdict check(const Fields &f) { stats().hit("src=" + std::to_string(f.geti("src"))); LocaleArm loc(f.geti("locale") != 0); return check_text(f.get("text")); }

// the accepted members of C01's exhaustive enumerations
static Verdict enumerate(int tier, int shard, int nshards, Fields *failing) {
  static const char alpha[] = {'a', 'f', 'v', '0', '1', '2', '5', '9', ':', '/', '?', '#', '[', ']', '@', '%', '.', '-', '!'};
  const int K = sizeof alpha;
  int maxLen = tier ? 6 : 5;
  uint64_t idx = 0;
  for (int len = 0; len <= maxLen; len++) {
    uint64_t total = 1;
    for (int i = 0; i < len; i++) total *= K;
    for (uint64_t v = 0; v < total; v++, idx++) {
      if ((int)(idx % (uint64_t)nshards) != shard) continue;
      std::string s;
      uint64_t x = v;
      for (int i = 0; i < len; i++) { s += alpha[x % K]; x /= K; }
      if (!uriref_matcher().matches(s)) continue;
      { Fields c; c.set("text", s); c.seti("src", 90); note_case(c); }
      Verdict r = check_text(s);
      stats().evaluations++;
      if (r.kind == Verdict::FAIL) { failing->set("text", s); failing->seti("src", 90); return r; }
    }
  }
  static const char lalpha[] = {'1', 'f', '0', ':', '.', ']', 'A'};
  const int LK = 7;
  int maxBody = tier ? 9 : 7;
  for (int len = 0; len <= maxBody; len++) {
    uint64_t total = 1;
    for (int i = 0; i < len; i++) total *= LK;
    for (uint64_t v = 0; v < total; v++, idx++) {
      if ((int)(idx % (uint64_t)nshards) != shard) continue;
      std::string s = "//[";
      uint64_t x = v;
      for (int i = 0; i < len; i++) { s += lalpha[x % LK]; x /= LK; }
      if (!uriref_matcher().matches(s)) continue;
      { Fields c; c.set("text", s); c.seti("src", 91); note_case(c); }
      Verdict r = check_text(s);
      stats().evaluations++;
      if (r.kind == Verdict::FAIL) { failing->set("text", s); failing->seti("src", 91); return r; }
    }
  }
  return Verdict::pass();
}

static std::string selftest() {
  // M_split on RFC 3986 section 3 example
  MUri m = m_split("foo://user@example.com:8042/over/there?name=ferret#nose");
  if (!(m.hasScheme && m.scheme == "foo" && m.hasAuth && m.hasUser && m.user == "user" && m.host == "example.com" && m.hasPort &&
        m.port == "8042" && m.path == "/over/there" && m.hasQuery && m.query == "name=ferret" && m.hasFrag && m.frag == "nose"))
    return "M_split fails on the RFC 3986 section 3 example";
  MUri n = m_split("urn:example:animal:ferret:nose");
  if (!(n.hasScheme && n.scheme == "urn" && !n.hasAuth && n.path == "example:animal:ferret:nose")) return "M_split fails on the urn example";
  MUri k = m_split("//[::ffff:1.2.3.4]:");
  static const uint8_t want[16] = {0, 0, 0, 0, 0, 0, 0, 0, 0, 0, 0xff, 0xff, 1, 2, 3, 4};
  if (!(k.hostKind == HK_IP6 && memcmp(k.ip.data(), want, 16) == 0 && k.hasPort && k.port.empty())) return "M_split fails on the IPv6 example";
  return "";
}

const Harness vf::HARNESS = {"C02", gen, check, enumerate, selftest};
