// C18  Filename/URI-string conversions round-trip within the documented sizes.
// Oracle: back(to(name)) == name; to(name) is a valid URI reference of the stated
// form; destination buffers have exactly the documented sizes and sit flush
// against a guard page; the short input forms file:/x and file:c:/x are accepted.
#include "gen.hpp"
#include "observe.hpp"

using namespace vf;

static std::string g_name_chars(Tape &t, int maxLen, const char *forbidden) {
  static const std::vector<std::string> chunks = {"a", "b", "Z", "0", ".", "..", " ", "%", "%41", ":", "#", "?", "+", "~", "-", "_", "&", "=", "\x7f", "\x80", "\xff", "\x01", ";", "@", "[", "]", "\\", "\\\\", "C:", "|", "c|"};  // backslashes and drive look-alikes are ordinary characters in Unix names
  std::string s;
  int n = t.range(0, maxLen);
  for (int i = 0; i < n; i++) {
    std::string c = t.chance(4, 5) ? t.pick(chunks) : std::string(1, (char)(1 + t.below(255)));
    bool bad = false;
    for (char ch : c) if (strchr(forbidden, ch) && ch) bad = true;
    if (!bad) s += c;
  }
  return s;
}
// kind: 0 unix absolute, 1 unix relative, 2 windows drive-absolute, 3 windows UNC, 4 windows relative
static std::string g_filename(Tape &t, int kind) {
  std::string s;
  int nseg = t.range(0, 4);
  bool deep = t.chance(1, 64);
  if (deep) nseg = t.range(250, 300);  // counters of separators that are narrower than int
  // in a deep name only the segments around the 8-bit wrap and the last one are generated, the rest is a plain "d"
  // (the choice tape is finite: 300 generated segments would leave the late ones empty)
  bool giant = !deep && t.chance(1, 128);  // one segment that makes the name longer than 2^16 characters (16-bit lengths)
  auto segment = [&](int i, const char *forbidden) -> std::string {
    if (giant && i == 1) return std::string((size_t)65530 + t.below(12), 'g');
    if (deep && !(i >= 250 && i <= 262) && i != nseg && i > 1) return "d";
    return g_name_chars(t, 5, forbidden);
  };
  if (kind <= 1) {
    std::vector<std::string> segs;
    for (int i = 0; i <= nseg; i++) segs.push_back(segment(i, "/"));
    std::string body;
    for (size_t i = 0; i < segs.size(); i++) { if (i) body += '/'; body += segs[i]; }
    if (kind == 0) {
      if (t.chance(1, 64)) return std::string((size_t)t.range(250, 260), '/') + body;  // counters of slashes narrower than int
      return "/" + body;
    }
    if (!body.empty() && body[0] == '/') body = "r" + body;  // relative iff it does not start with '/'
    return body;
  }
  std::vector<std::string> segs;
  for (int i = 0; i <= nseg; i++) segs.push_back(segment(i, "/\\"));
  if (kind == 2) {
    s = std::string(1, "CcAzZx"[t.below(6)]) + ":";
    if (t.chance(1, 6)) return s;  // bare "X:"
    for (auto &sg : segs) s += "\\" + sg;
    return s;
  }
  if (kind == 3) {
    std::string server = g_name_chars(t, 5, "/\\");
    if (server.empty()) server = "srv";
    // server and share names that software special-cases (local machine, Win32 device / extended-length prefixes)
    if (t.chance(1, 6)) { static const std::vector<std::string> known = {"localhost", "LOCALHOST", "Localhost", "?", ".", "127.0.0.1", "[::1]", "localhost.", "%6cocalhost", "[2001:db8:0:1]", "[1:2:3]", "[::g]", "[v1.x]", "a:b", "u@h", "h:80"}; server = t.pick(known); }  // incl. look-alikes of bracketed literals, user info and ports
    if (t.chance(1, 6) && !segs.empty()) { static const std::vector<std::string> first = {"C:", "c:", "C|", "UNC", "GLOBALROOT", "c$", "share"}; segs[0] = t.pick(first); }
    s = "\\\\" + server;
    if (t.chance(5, 6)) for (auto &sg : segs) s += "\\" + sg;
    return s;
  }
  // relative: no ':' at index 1, does not start with "\\\\"
  for (size_t i = 0; i < segs.size(); i++) { if (i) s += '\\'; s += segs[i]; }
  if (t.chance(1, 5)) s = "\\" + s;  // rooted on the current drive: still "relative" for the API
  if (s.size() >= 2 && s[1] == ':') s[1] = ';';
  if (s.compare(0, 2, "\\\\") == 0) s = "x" + s;
  return s;
}

static Fields gen(Tape &t) {
  Fields f;
  int kind = t.weighted({3, 2, 3, 2, 2});
  f.seti("kind", kind);
  f.set("name", g_filename(t, kind));
  // where the caller keeps the two strings: 0 unrelated buffers, 1 the name directly in front of the URI buffer (one
  // arena, name first), 2 the name directly behind the URI buffer (struct { char uri[3n+8]; char name[n+1]; })
  f.seti("layout", t.weighted({2, 1, 1}));
  return f;
}

static GuardBuf &gb1() { static GuardBuf g(320); return g; }  // 1.25 MiB: names of 2^16 characters, tripled, four bytes wide
static GuardBuf &gb2() { static GuardBuf g(320); return g; }

template <class A> static Verdict check_type(const std::string &name, int kind, int layout = 0) {
  using Ch = typename A::Ch;
  bool unix_ = kind <= 1;
  bool absolute = kind == 0 || kind == 2 || kind == 3;
  size_t n = name.size();
  size_t cap = (absolute ? (unix_ ? 7 : 8) : 0) + 3 * n + 1;
  if ((cap + n + 1) * sizeof(Ch) > gb1().capacity()) return Verdict::discard();  // harness limit (guard buffer)
  std::basic_string<Ch> in = widen<Ch>(name);
  Ch *uri = gb1().template right_chars<Ch>(cap);
  const Ch *inp = in.c_str();
  if (layout == 2) {  // [ uri | name ] flush against the guard page
    uri = gb1().template right_chars<Ch>(cap + n + 1);
    memcpy(uri + cap, in.c_str(), (n + 1) * sizeof(Ch));
    inp = uri + cap;
  } else if (layout == 1) {  // [ name | uri ]
    Ch *at = gb1().template right_chars<Ch>(cap + n + 1);
    memcpy(at, in.c_str(), (n + 1) * sizeof(Ch));
    inp = at;
  }
  for (size_t i = 0; i < cap; i++) uri[i] = (Ch)0xAA;
  int rc = unix_ ? A::UnixFilenameToUriString(inp, uri) : A::WindowsFilenameToUriString(inp, uri);
  if (layout) VF_REQUIRE(memcmp(inp, in.c_str(), (n + 1) * sizeof(Ch)) == 0, "%s: the file name next to the URI buffer was modified", A::name());
  stats().sub_evaluations++;
  VF_REQUIRE(rc == 0, "%s: filename->URI rc=%d", A::name(), rc);
  size_t len = 0;
  while (len < cap && uri[len] != 0) len++;
  VF_REQUIRE(len < cap, "%s: URI string not terminated inside the documented %zu characters", A::name(), cap);
  VF_REQUIRE(narrowable<Ch>(uri, uri + len), "%s: URI string has characters above 255", A::name());
  std::string u = narrow<Ch>(uri, uri + len);
  auto fail = [&](const std::string &m) { return Verdict::fail(std::string(A::name()) + ": name '" + esc(name) + "' -> '" + esc(u) + "': " + m); };
  if (!uriref_matcher().matches(u)) return fail("not a valid URI reference");
  MUri m = m_split(u);
  switch (kind) {
    case 0: if (!(m.hasScheme && m.scheme == "file" && m.hasAuth && m.host.empty() && !m.hasUser && !m.hasPort && !m.path.empty() && m.path[0] == '/')) return fail("not of the form file:///x"); break;
    case 2: if (!(m.hasScheme && m.scheme == "file" && m.hasAuth && m.host.empty() && m.path.size() >= 3 && m.path[0] == '/' && isalpha((unsigned char)m.path[1]) && m.path[2] == ':')) return fail("not of the form file:///C:/x"); break;
    case 3: if (!(m.hasScheme && m.scheme == "file" && m.hasAuth && !m.host.empty())) return fail("not of the form file://server/share"); break;
    default: if (m.hasScheme || m.hasAuth) return fail("relative name did not give a relative reference");
  }
  if (m.hasQuery || m.hasFrag) return fail("query or fragment delimiter left unescaped");
  // and back, destination of exactly the documented size
  size_t bcap = absolute ? (len + 1 - 5) : (len + 1);
  Ch *back = gb2().template right_chars<Ch>(bcap);
  for (size_t i = 0; i < bcap; i++) back[i] = (Ch)0xAA;
  std::basic_string<Ch> uw(uri, uri + len);
  rc = unix_ ? A::UriStringToUnixFilename(uw.c_str(), back) : A::UriStringToWindowsFilename(uw.c_str(), back);
  stats().sub_evaluations++;
  VF_REQUIRE(rc == 0, "%s: URI->filename rc=%d", A::name(), rc);
  size_t bl = 0;
  while (bl < bcap && back[bl] != 0) bl++;
  VF_REQUIRE(bl < bcap, "%s: filename not terminated inside the documented %zu characters", A::name(), bcap);
  std::string b = narrow<Ch>(back, back + bl);
  if (b != name) return fail("converts back to '" + esc(b) + "'");
  // short forms accepted on input
  if (kind == 0 && (name.size() < 2 || name[1] != '/')) {  // "file:/x" is a short form only while it has exactly one slash
    std::string shortForm = "file:" + u.substr(7);  // file:/x
    std::basic_string<Ch> sw = widen<Ch>(shortForm);
    size_t c2 = shortForm.size() + 1 - 5 + 0;
    Ch *b2 = gb2().template right_chars<Ch>(c2 + 0);
    rc = A::UriStringToUnixFilename(sw.c_str(), b2);
    size_t l2 = 0; while (l2 < c2 && b2[l2] != 0) l2++;
    VF_REQUIRE(rc == 0 && l2 < c2 && narrow<Ch>(b2, b2 + l2) == name, "%s: short form '%s' does not give '%s'", A::name(), esc(shortForm).c_str(), esc(name).c_str());
  }
  if (kind == 2) {
    std::string shortForm = "file:" + u.substr(8);  // file:c:/x
    std::basic_string<Ch> sw = widen<Ch>(shortForm);
    size_t c2 = shortForm.size() + 1 - 5;
    Ch *b2 = gb2().template right_chars<Ch>(c2);
    rc = A::UriStringToWindowsFilename(sw.c_str(), b2);
    size_t l2 = 0; while (l2 < c2 && b2[l2] != 0) l2++;
    VF_REQUIRE(rc == 0 && l2 < c2 && narrow<Ch>(b2, b2 + l2) == name, "%s: short form '%s' does not give '%s'", A::name(), esc(shortForm).c_str(), esc(name).c_str());
  }
  return Verdict::pass();
}

static bool in_domain(const std::string &name, int kind) {
  if (name.find('\0') != std::string::npos) return false;
  if (kind == 0) return !name.empty() && name[0] == '/';
  if (kind == 1) return name.empty() || name[0] != '/';
  if (name.find('/') != std::string::npos) return false;
  if (kind == 2) return name.size() >= 2 && isalpha((unsigned char)name[0]) && name[1] == ':' && (name.size() == 2 || name[2] == '\\');
  if (kind == 3) return name.size() >= 3 && name[0] == '\\' && name[1] == '\\' && name[2] != '\\';
  return !(name.size() >= 2 && name[1] == ':') && name.compare(0, 2, "\\\\") != 0;
}

static Verdict check_one(const std::string &name, int kind, int layout = 0) {
  if (!in_domain(name, kind)) return Verdict::discard();
  Verdict v = check_type<Api<char>>(name, kind, layout);
  if (v.kind != Verdict::PASS) return v;
  v = check_type<Api<wchar_t>>(name, kind, layout);
  if (layout) stats().hit("layout=" + std::to_string(layout));
  if (v.kind != Verdict::PASS) return v;
  static const char *kn[] = {"unix_absolute", "unix_relative", "windows_drive", "windows_unc", "windows_relative"};
  stats().hit(kn[kind]);
  bool needsEsc = false; int seps = 0;
  for (unsigned char c : name) { if (!(isalnum(c) || strchr("-._~/\\:", c))) needsEsc = true; if (c == '/' || c == '\\') seps++; }
  if (needsEsc || seps >= 2) stats().nontrivial(std::to_string(kind) + name, std::string(kn[kind]) + ": " + esc(name));
  return Verdict::pass();
}
static Verdict check(const Fields &f) { return check_one(f.get("name"), (int)f.geti("kind"), (int)f.geti("layout")); }

// exhaustive: every name up to length L over {a C : \ / space % .}, judged in every class it belongs to
static Verdict enumerate(int tier, int shard, int nshards, Fields *failing) {
  static const char alpha[] = {'a', 'C', ':', '\\', '/', ' ', '%', '.'};
  const int K = sizeof alpha;
  int maxLen = tier ? 7 : 6;
  uint64_t idx = 0;
  for (int len = 0; len <= maxLen; len++) {
    uint64_t total = 1;
    for (int i = 0; i < len; i++) total *= K;
    for (uint64_t v = 0; v < total; v++, idx++) {
      if ((int)(idx % (uint64_t)nshards) != shard) continue;
      std::string s;
      uint64_t x = v;
      for (int i = 0; i < len; i++) { s += alpha[x % K]; x /= K; }
      for (int kind = 0; kind < 5; kind++) {
        if (!in_domain(s, kind)) continue;
        { Fields c; c.set("name", s); c.seti("kind", kind); note_case(c); }
        Verdict r = check_one(s, kind);
        stats().evaluations++;
        if (r.kind == Verdict::FAIL) { failing->set("name", s); failing->seti("kind", kind); return r; }
      }
    }
  }
  return Verdict::pass();
}

const Harness vf::HARNESS = {"C18", gen, check, enumerate, nullptr};
