// C11  URI equality means component-wise identity.
// Oracle: uriEqualsUri(a,b) == M_eq(snapshot a, snapshot b) (absent != empty, IP
// hosts by value, absolutePath, segment sequence); reflexive, symmetric,
// transitive over generated triples; NULL handling; arguments bit-for-bit
// unchanged; for library-produced objects: equal iff recomposed texts identical.
#include "hist.hpp"

using namespace vf;

// single-component mutations of a generated URI (kind recorded for the histogram)
static GenUri mutate(Tape &t, const GenUri &u, int *kind) {
  GenUri m = u;
  auto tweak = [&](std::string &s) {
    if (s.empty()) { s = "x"; return; }
    size_t p = t.below((uint32_t)s.size());
    char c = s[p];
    if (c == '%' || (p >= 1 && s[p - 1] == '%') || (p >= 2 && s[p - 2] == '%')) { s += "x"; return; }
    s[p] = (c == 'a') ? 'b' : (isalpha((unsigned char)c) ? (char)(c ^ 0x20) : (isdigit((unsigned char)c) ? (char)('0' + (c - '0' + 1) % 10) : 'a'));
    if (s[p] == ':' ) s[p] = 'a';
  };
  int k = (int)t.below(14);
  *kind = k;
  switch (k) {
    case 0: if (m.hasScheme) tweak(m.scheme); else { m.hasScheme = true; m.scheme = "s"; } break;
    case 1: if (m.hasAuth) { if (m.auth.hasUser) tweak(m.auth.user); else { m.auth.hasUser = true; m.auth.user = ""; } } break;  // absent <-> empty / changed
    case 2: if (m.hasAuth && m.auth.hasUser) m.auth.hasUser = false; break;
    case 3: if (m.hasAuth) { if (m.auth.hasPort) m.auth.port += "1"; else { m.auth.hasPort = true; m.auth.port = ""; } } break;
    case 4: if (m.hasAuth && m.auth.hasPort) m.auth.hasPort = false; break;
    case 5:
      if (m.hasAuth && m.auth.hostKind == 1) tweak(m.auth.host);
      else if (m.hasAuth && m.auth.hostKind == 4 && m.auth.host.size() >= 6) {  // IPvFuture literal: same length, other last character
        char &c = m.auth.host[m.auth.host.size() - 2];
        c = c == 'x' ? 'y' : 'x';
      }
      break;
    case 6:  // other spelling of the same IP value / other kind with look-alike text
      if (m.hasAuth) {
        if (m.auth.host == "[::1]") m.auth.host = "[0:0:0:0:0:0:0:1]";
        else if (m.auth.host == "[0:0:0:0:0:0:0:1]") m.auth.host = "[::0.0.0.1]";
        else if (m.auth.hostKind == 2) m.auth.host = "[::" + m.auth.host + "]";
        else if (m.auth.hostKind == 4) { m.auth.host = m.auth.host.substr(1, m.auth.host.size() - 2); m.auth.hostKind = 1; }  // IPvFuture literal -> registered name of the same text
        else if (m.auth.hostKind == 1 && m.auth.host.size() >= 4 && (m.auth.host[0] == 'v' || m.auth.host[0] == 'V') && m.auth.host.find('%') == std::string::npos) { m.auth.host = "[" + m.auth.host + "]"; m.auth.hostKind = 4; }
        else if (m.auth.hostKind == 3) m.auth.host = "[::2]";
        else m.auth.host = "1.2.3.4";
      }
      break;
    case 7: if (m.hasQuery) tweak(m.query); else { m.hasQuery = true; m.query = ""; } break;
    case 8: if (m.hasQuery) m.hasQuery = false; break;
    case 9: if (m.hasFrag) tweak(m.frag); else { m.hasFrag = true; m.frag = ""; } break;
    case 10: if (m.hasFrag) m.hasFrag = false; break;
    case 11:  // "/a" <-> "a"
      if (!m.hasAuth) {
        if (!m.path.empty() && m.path[0] == '/' && m.path.size() > 1 && m.path[1] != '/') {
          std::string p = m.path.substr(1);
          size_t e = p.find('/');
          if (m.hasScheme || p.substr(0, e).find(':') == std::string::npos) m.path = p;
        } else if (!m.path.empty() && m.path[0] != '/') m.path = "/" + m.path;
      }
      break;
    case 12: if (m.path.empty()) m.path = m.hasAuth ? "/" : (t.coin() ? "/" : "a"); else if (m.path == "/" && t.coin()) m.path = ""; else if (m.path.back() == '/') m.path.pop_back(); else m.path += "/"; if (!m.hasAuth && m.path.compare(0, 2, "//") == 0) m.path = "/"; break;
    default: { size_t p = m.path.rfind('/'); std::string last = p == std::string::npos ? m.path : m.path.substr(p + 1); if (!last.empty() && last.find('%') == std::string::npos && last.find(':') == std::string::npos) { m.path += "x"; } else if (m.hasAuth || !m.path.empty()) m.path += "/y"; }
  }
  return m;
}

static Fields gen(Tape &t) {
  Fields f;
  LongMode lm(t);
  if (lm.on()) f.seti("long", 1);
  int arm = t.weighted({2, 5, 2, 3, 2});
  f.seti("arm", arm);
  if (arm == 0) { f.set("a", g_uri(t)); f.set("b", g_uri(t)); f.set("c", g_uri(t)); }
  else if (arm == 1) {
    GenUri u = g_uri_parts(t);
    int k1 = 0, k2 = 0;
    GenUri m = mutate(t, u, &k1);
    f.set("a", u.text()); f.set("b", m.text());
    f.set("c", t.coin() ? u.text() : mutate(t, m, &k2).text());
    f.seti("mut", k1);
    f.seti("handedit", t.chance(7, 8) ? 0 : 1 + (int)t.below(3));
  } else if (arm == 2) {
    std::string s = g_uri(t);
    f.set("a", s); f.set("b", s); f.set("c", s);
    f.seti("variant", t.below(3));
  } else if (arm == 4) {
    // overlapping views of ONE buffer: a = [0, n-i), b = [j, n) or [0, n-j), c = [0, n): ranges of different URIs then
    // start (or end) at the very same address although their texts differ
    f.set("a", g_uri(t));
    f.seti("i", t.below(7)); f.seti("j", t.below(7)); f.seti("bfront", t.below(2));
  } else {
    ops_to_fields(f, g_history(t, SEG_ANY, false, 6));
    f.seti("i", t.below(64)); f.seti("j", t.below(64)); f.seti("k", t.below(64));
    f.seti("stepfault", t.chance(4, 5) ? 0 : t.range(1, 6));  // k-th allocation of every producing step fails once
  }
  return f;
}

template <class A> static Verdict judge(const typename A::Uri *a, const typename A::Uri *b, bool libraryProduced, const char *what, bool *eqOut, int *diffCount) {
  Snap sa = snapshot<A>(*a), sb = snapshot<A>(*b);
  std::string fa = freeze<A>(*a), fb = freeze<A>(*b);
  bool got = A::EqualsUri(a, b) == URI_TRUE;
  bool got2 = A::EqualsUri(b, a) == URI_TRUE;
  stats().sub_evaluations++;
  VF_REQUIRE(freeze<A>(*a) == fa && freeze<A>(*b) == fb, "%s: %s: comparing modified an argument", A::name(), what);
  bool want = sa.sameAs(sb);
  *eqOut = got;
  // number of differing components (for the histogram / non-triviality)
  int d = (sa.scheme != sb.scheme) + (sa.user != sb.user) + (sa.port != sb.port) + (sa.query != sb.query) + (sa.frag != sb.frag) +
          (sa.absolutePath != sb.absolutePath) + (sa.segs != sb.segs || sa.hasSegs != sb.hasSegs) +
          !(sa.hostKind == sb.hostKind && (sa.hostKind == HK_IP4 ? memcmp(sa.ip.data(), sb.ip.data(), 4) == 0 : sa.hostKind == HK_IP6 ? sa.ip == sb.ip : sa.host == sb.host));
  *diffCount = d;
  std::string klass;
  if (got != want && !want && sa.scheme && sa.absolutePath != sb.absolutePath && d == 1) klass = "F-E1";
  if (got != got2) return Verdict::fail(std::string(A::name()) + ": " + what + ": uriEqualsUri is not symmetric: " + sa.describe() + " | " + sb.describe(), klass);
  if (got != want)
    return Verdict::fail(std::string(A::name()) + ": " + what + ": uriEqualsUri=" + (got ? "true" : "false") + " but components are " + (want ? "identical" : "different") + ": " +
                             sa.describe() + " | " + sb.describe(), klass);
  if (libraryProduced) {
    std::string ta, tb;
    VF_REQUIRE(to_string<A>(*a, &ta) && to_string<A>(*b, &tb), "%s: %s: uriToString failed", A::name(), what);
    if ((ta == tb) != got)
      return Verdict::fail(std::string(A::name()) + ": " + what + ": uriEqualsUri=" + (got ? "true" : "false") + " but recomposed texts are '" + esc(ta) + "' and '" + esc(tb) + "': " +
                               sa.describe() + " | " + sb.describe(), "");
  }
  return Verdict::pass();
}

template <class A> static Verdict check_type(const Fields &f, int *minDiff, bool *anyEqual3) {
  using Ch = typename A::Ch;
  int arm = (int)f.geti("arm");
  // NULL handling (same for every case, cheap)
  VF_REQUIRE(A::EqualsUri(nullptr, nullptr) == URI_TRUE, "%s: (NULL, NULL) not equal", A::name());
  bool eq; int d;
  if (arm <= 2) {
    Parsed<A> a, b, c;
    parse_via<A>(a, PE_SINGLE_EX, widen<Ch>(f.get("a")));
    parse_via<A>(b, PE_SINGLE_EX, widen<Ch>(f.get("b")));
    parse_via<A>(c, PE_SINGLE_EX, widen<Ch>(f.get("c")));
    if (a.rc || b.rc || c.rc) return Verdict::discard();
    const bool produced = !f.geti("handedit");  // the "equal iff texts identical" clause speaks of URIs the library produced
    if (f.geti("handedit")) {  // the flag is documented as irrelevant for URIs with a host: a caller may have set it
      if (a.uri.hostText.first) a.uri.absolutePath = URI_TRUE;
      if ((f.geti("handedit") & 2) && b.uri.hostText.first) b.uri.absolutePath = URI_TRUE;
    }
    VF_REQUIRE(A::EqualsUri(&a.uri, nullptr) == URI_FALSE && A::EqualsUri(nullptr, &a.uri) == URI_FALSE, "%s: (x, NULL) reported equal", A::name());
    if (arm == 2) {
      int v = (int)f.geti("variant");
      if (v == 1) VF_REQUIRE(A::MakeOwner(&b.uri) == 0, "%s: uriMakeOwner failed", A::name());
      if (v == 2 && a.uri.scheme.first) {
        // resolve the empty reference against a: same URI minus fragment; compare with a fragment-less parse
        std::string s = f.get("a");
        size_t h = s.find('#');
        std::string nofrag = h == std::string::npos ? s : s.substr(0, h);
        Parsed<A> e, n;
        parse_via<A>(e, PE_SINGLE_EX, widen<Ch>(""));
        parse_via<A>(n, PE_SINGLE_EX, widen<Ch>(nofrag));
        typename A::Uri r;
        VF_REQUIRE(A::AddBaseUri(&r, &e.uri, &a.uri) == 0, "%s: resolving the empty reference failed", A::name());
        Verdict vv = judge<A>(&r, &n.uri, true, "empty-reference copy vs parse", &eq, &d);
        bool expectEq = true;
        if (vv.kind == Verdict::PASS && !eq && expectEq) vv = Verdict::fail(std::string(A::name()) + ": resolving the empty reference against '" + esc(s) + "' is not equal to '" + esc(nofrag) + "'");
        A::FreeUriMembers(&r);
        if (vv.kind != Verdict::PASS) return vv;
      }
    }
    bool ab, bc, ac, aa;
    Verdict v = judge<A>(&a.uri, &a.uri, produced, "reflexivity", &aa, &d);
    if (v.kind != Verdict::PASS) return v;
    VF_REQUIRE(aa, "%s: a URI is not equal to itself", A::name());
    v = judge<A>(&a.uri, &b.uri, produced, "a~b", &ab, &d);
    if (v.kind != Verdict::PASS) return v;
    *minDiff = d;
    v = judge<A>(&b.uri, &c.uri, produced, "b~c", &bc, &d);
    if (v.kind != Verdict::PASS) return v;
    v = judge<A>(&a.uri, &c.uri, produced, "a~c", &ac, &d);
    if (v.kind != Verdict::PASS) return v;
    VF_REQUIRE(!(ab && bc) || ac, "%s: uriEqualsUri is not transitive", A::name());
    if (arm == 2) VF_REQUIRE(ab && bc && ac, "%s: equal-by-construction copies compare different", A::name());
    *anyEqual3 = ab;
    return Verdict::pass();
  }
  if (arm == 4) {
    std::basic_string<Ch> T = widen<Ch>(f.get("a"));
    size_t n = T.size();
    std::unique_ptr<Ch[]> buf(new Ch[n]);
    if (n) memcpy(buf.get(), T.data(), n * sizeof(Ch));
    size_t ci = (size_t)f.geti("i") % (n + 1), cj = (size_t)f.geti("j") % (n + 1);
    bool bfront = f.geti("bfront") != 0;
    typename A::Uri a, b, c;
    const Ch *ep;
    int ra = A::ParseSingleUriEx(&a, buf.get(), buf.get() + (n - ci), &ep);
    int rb = bfront ? A::ParseSingleUriEx(&b, buf.get() + cj, buf.get() + n, &ep) : A::ParseSingleUriEx(&b, buf.get(), buf.get() + (n - cj), &ep);
    int rcc = A::ParseSingleUriEx(&c, buf.get(), buf.get() + n, &ep);
    struct Cl { typename A::Uri *x, *y, *z; ~Cl() { A::FreeUriMembers(x); A::FreeUriMembers(y); A::FreeUriMembers(z); } } cl{&a, &b, &c};
    // a cut that falls inside a token does not give a valid reference: fall back to the full text for that view
    if (ra) { A::FreeUriMembers(&a); ra = A::ParseSingleUriEx(&a, buf.get(), buf.get() + n, &ep); }
    if (rb) { A::FreeUriMembers(&b); rb = A::ParseSingleUriEx(&b, buf.get(), buf.get() + n, &ep); }
    if (ra || rb || rcc) return Verdict::discard();
    bool ab, bc, ac;
    Verdict v = judge<A>(&a, &b, true, "views a~b of one buffer", &ab, &d);
    if (v.kind != Verdict::PASS) return v;
    *minDiff = d;
    v = judge<A>(&b, &c, true, "views b~c of one buffer", &bc, &d);
    if (v.kind != Verdict::PASS) return v;
    v = judge<A>(&a, &c, true, "views a~c of one buffer", &ac, &d);
    if (v.kind != Verdict::PASS) return v;
    VF_REQUIRE(!(ab && bc) || ac, "%s: uriEqualsUri is not transitive on views of one buffer", A::name());
    *anyEqual3 = ab;
    return Verdict::pass();
  }
  // arm 3: objects out of a history
  World<A> w;
  std::vector<Op> ops = ops_from_fields(f);
  {
    LibcLedger &LL = libc_ledger();
    struct Off { LibcLedger &l; ~Off() { l.fail_at = 0; } } off{LL};
    int sf = (int)f.geti("stepfault");
    for (auto &op : ops) {
      LL.fail_at = 0;
      if (sf > 0 && strchr("RBNO", op.kind)) { LL.req = 0; LL.fail_at = (uint64_t)sf; }
      w.exec(op);
      LL.fail_at = 0;
    }
  }
  std::vector<int> valid;
  for (int k = 0; k < w.size(); k++) if (w.at(k).valid) valid.push_back(k);
  if (valid.size() < 2) return Verdict::pass();
  int i = valid[(size_t)f.geti("i") % valid.size()], j = valid[(size_t)f.geti("j") % valid.size()], k = valid[(size_t)f.geti("k") % valid.size()];
  bool ij, jk, ik;
  Verdict v = judge<A>(&w.at(i).uri, &w.at(j).uri, true, "history objects i~j", &ij, &d);
  if (v.kind != Verdict::PASS) return v;
  *minDiff = d;
  v = judge<A>(&w.at(j).uri, &w.at(k).uri, true, "history objects j~k", &jk, &d);
  if (v.kind != Verdict::PASS) return v;
  v = judge<A>(&w.at(i).uri, &w.at(k).uri, true, "history objects i~k", &ik, &d);
  if (v.kind != Verdict::PASS) return v;
  VF_REQUIRE(!(ij && jk) || ik, "%s: uriEqualsUri is not transitive on history objects", A::name());
  // an object and the parse of its own recomposed text have identical texts, so they must compare equal
  {
    std::string ti;
    VF_REQUIRE(to_string<A>(w.at(i).uri, &ti), "%s: uriToString failed on a history object", A::name());
    Parsed<A> back;
    parse_via<A>(back, PE_SINGLE_EX, widen<Ch>(ti));
    if (back.rc == 0) {
      bool same; int dd;
      v = judge<A>(&w.at(i).uri, &back.uri, true, "history object vs the parse of its own text", &same, &dd);
      if (v.kind != Verdict::PASS) return v;
    }
  }
  *anyEqual3 = ij;
  return Verdict::pass();
}

static Verdict check(const Fields &f) {
  int arm = (int)f.geti("arm");
  if (arm == 4) { if (!uriref_matcher().matches(f.get("a"))) return Verdict::discard(); }
  else if (arm <= 2) { for (const char *k : {"a", "b", "c"}) if (!uriref_matcher().matches(f.get(k))) return Verdict::discard(); }
  else for (auto &op : ops_from_fields(f)) if (op.kind == 'P' && !uriref_matcher().matches(op.text)) return Verdict::discard();
  int md = -1; bool eq3 = false;
  Verdict v = check_type<Api<char>>(f, &md, &eq3);
  if (v.kind != Verdict::PASS) return v;
  v = check_type<Api<wchar_t>>(f, &md, &eq3);
  if (v.kind != Verdict::PASS) return v;
  Stats &S = stats();
  S.hit("arm=" + std::to_string(arm));
  if (arm == 1) S.hit("mutation=" + std::to_string(f.geti("mut")));
  S.hit(eq3 ? "pair=equal" : "pair=different");
  if (md == 1 || (eq3 && arm != 0)) S.nontrivial(f.text(), arm <= 2 || arm == 4 ? "a=" + esc(f.get("a")) + " b=" + esc(f.get("b")) : f.text());
  if (md == 1) S.hit("differ_in_exactly_one_component");
  return Verdict::pass();
}

const Harness vf::HARNESS = {"C11", gen, check, nullptr, nullptr};
