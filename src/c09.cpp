// C09  Normalization never changes what a reference identifies.
// Metamorphic oracle: normalize(resolve(normalize(R), B)) == normalize(resolve(R, B))
// for R without percent-encoded dot segments and absolute B; plus the invariants on
// normalize(R) alone (scheme / authority presence, relative stays relative and
// non-empty, absolute stays absolute).
#include "hist.hpp"
#include "pathenum.hpp"

using namespace vf;

static Fields gen(Tape &t) {
  Fields f;
  // one case in six: R is an object a short history of library calls left behind (resolved, created, normalised with a
  // partial mask, owned, read back) and is normalised as it stands; B is another such object, known by its text
  if (t.below(6) == 5) {
    int hi = t.weighted({4, 3, 2, 1}), hj = t.weighted({4, 3, 2, 1}), owned = t.chance(3, 4) ? 0 : 1;
    ops_to_fields(f, g_history(t, SEG_NOPCTDOT, false, 5));
    f.seti("hi", hi); f.seti("hj", hj); f.seti("owned", owned);
    return f;
  }
  LongMode lm(t, true);
  if (lm.on()) f.seti("long", 1);
  GenUri b = g_base(t, /*forceScheme=*/true, SEG_NOPCTDOT);
  int kind = 0;
  GenUri r = g_ref(t, b, &kind, SEG_NOPCTDOT);
  f.set("base", b.text());
  f.set("ref", r.text());
  f.seti("kind", kind);
  // variants of how R is normalised: after uriMakeOwner (other allocation pattern), and with the k-th allocation of the
  // normalising call failing once (a result that is still reported as success must identify the same resource)
  f.seti("owned", t.chance(3, 4) ? 0 : 1);
  f.seti("fault", t.chance(3, 4) ? 0 : t.range(1, 6));
  return f;
}

static bool has_pct_dot(const std::string &s) {
  // a percent-encoded '.' anywhere in the path could form an encoded dot segment
  for (size_t i = 0; i + 2 < s.size(); i++)
    if (s[i] == '%' && s[i + 1] == '2' && (s[i + 2] == 'e' || s[i + 2] == 'E')) return true;
  return false;
}

template <class A> struct Held {
  using Ch = typename A::Ch;
  typename A::Uri u;
  std::unique_ptr<Ch[]> buf;
  bool live = false;
  UriMemoryManager *mm = nullptr;
  ~Held() { if (live) A::FreeUriMembersMm(&u, mm); }
  int parse(const std::string &s, UriMemoryManager *m = nullptr) {
    mm = m;
    std::basic_string<Ch> w = widen<Ch>(s);
    buf.reset(new Ch[w.size()]);
    if (!w.empty()) memcpy(buf.get(), w.data(), w.size() * sizeof(Ch));
    const Ch *ep;
    int rc = A::ParseSingleUriExMm(&u, buf.get(), buf.get() + w.size(), &ep, mm);
    live = true;
    return rc;
  }
};

// open known finding F-N1: a relative-path reference whose dot segments cancel completely becomes the empty reference
static std::string classify(const MUri &R) {
  if (m_is_relative_path_ref(R) && !R.path.empty()) {
    MNormPath np = m_norm_path(R);
    if (np.corner == 1) return "F-N1";
  }
  return "";
}

// made: R as a library-made object (normalised in place as it stands) instead of the parse of rt
template <class A> static Verdict check_type(const std::string &bt, const std::string &rt, const MUri &MR, bool *pathChanged, int owned, int fault, bool *swallowed, typename A::Uri *made = nullptr) {
  std::string klass = classify(MR);
  LedgerMM mm;  // declared before the URIs that release through it
  auto fail = [&](const std::string &m) { return Verdict::fail(std::string(A::name()) + ": R='" + esc(rt) + "' B='" + esc(bt) + "': " + m + (made ? " {R is an object out of a history}" : ""), klass); };
  Held<A> B, R1, R2h;
  if (B.parse(bt) != 0 || R1.parse(rt) != 0) return Verdict::discard();
  if (!made && R2h.parse(rt, fault > 0 ? &mm.mm : nullptr) != 0) return Verdict::discard();
  struct { typename A::Uri &u; UriMemoryManager *mm; } R2{made ? *made : R2h.u, made ? nullptr : R2h.mm};
  // right-hand side: normalize(resolve(R, B))
  typename A::Uri rhs, lhs;
  int rc = A::AddBaseUri(&rhs, &R1.u, &B.u);
  struct Cl { typename A::Uri *u; ~Cl() { A::FreeUriMembers(u); } } c1{&rhs};
  if (rc != 0) return fail("resolution failed rc=" + std::to_string(rc));
  if (A::NormalizeSyntax(&rhs) != 0) return fail("normalisation of the resolved URI failed");
  // left-hand side: normalize(resolve(normalize(R), B))
  Snap before = snapshot<A>(R2.u);
  if (owned && A::MakeOwnerMm(&R2.u, R2.mm) != 0) return fail("uriMakeOwner failed");
  if (fault > 0) {
    mm.reset_counts(); mm.reset_plan(); mm.fail_at = (uint64_t)fault;
    int nrc = A::NormalizeSyntaxExMm(&R2.u, (unsigned)-1, &mm.mm);
    bool bit = mm.failed > 0;
    mm.reset_plan();
    if (nrc != 0) return Verdict::pass();  // reported failure: nothing more to say here (C14 judges error reporting)
    if (bit) *swallowed = true;            // a request failed and the call still reports success: the result is judged like any other
  } else if (A::NormalizeSyntax(&R2.u) != 0) return fail("normalisation of R failed");
  Snap after = snapshot<A>(R2.u);
  std::string nrt;
  if (!to_string<A>(R2.u, &nrt)) return fail("uriToString failed on normalised R");
  rc = A::AddBaseUri(&lhs, &R2.u, &B.u);
  Cl c2{&lhs};
  if (rc != 0) return fail("resolution of normalised R failed rc=" + std::to_string(rc));
  if (A::NormalizeSyntax(&lhs) != 0) return fail("normalisation of the second resolved URI failed");
  std::string lt, rtx;
  if (!to_string<A>(lhs, &lt) || !to_string<A>(rhs, &rtx)) return fail("uriToString failed");
  if (lt != rtx) return fail("normalised R '" + esc(nrt) + "' resolves (normalised) to '" + esc(lt) + "' but R itself to '" + esc(rtx) + "'");
  if (A::EqualsUri(&lhs, &rhs) != URI_TRUE) return fail("texts agree ('" + esc(lt) + "') but uriEqualsUri says the two results differ");
  // invariants of normalisation on R alone
  if ((before.scheme.has_value()) != (after.scheme.has_value())) return fail("normalisation added or removed a scheme");
  if (before.hasAuth() != after.hasAuth()) return fail("normalisation added or removed an authority");
  {
    // the same two clauses on what the normalised reference says when it is written out and read again
    if (!uriref_matcher().matches(nrt)) return fail("normalised R '" + esc(nrt) + "' is not a valid reference");
    MUri back = m_split(nrt);
    if (back.hasScheme != before.scheme.has_value()) return fail("normalised R '" + esc(nrt) + "' reads back " + (back.hasScheme ? "with" : "without") + " a scheme");
    if (back.hasAuth != before.hasAuth()) return fail("normalised R '" + esc(nrt) + "' reads back " + (back.hasAuth ? "with" : "without") + " an authority");
  }
  if (!before.scheme && !before.hasAuth()) {
    // judged on the recomposed text of the normalised reference
    std::string pb = before.pathText();
    MUri back = uriref_matcher().matches(nrt) ? m_split(nrt) : MUri();
    if (!uriref_matcher().matches(nrt)) return fail("normalised R '" + esc(nrt) + "' is not a valid reference");
    if (back.hasScheme || back.hasAuth) return fail("normalised R '" + esc(nrt) + "' reads back with a scheme or an authority");
    const std::string &pa = back.path;
    bool wasRooted = !pb.empty() && pb[0] == '/';
    bool isRooted = !pa.empty() && pa[0] == '/';
    if (pb.empty() && !pa.empty()) return fail("empty path became '" + pa + "'");
    if (!pb.empty() && !wasRooted && pa.empty()) return fail("relative path '" + pb + "' became empty");
    if (!pb.empty() && !wasRooted && isRooted) return fail("relative path '" + pb + "' became absolute '" + pa + "'");
    if (wasRooted && !isRooted) return fail("absolute path '" + pb + "' became relative '" + pa + "'");
  }
  if (before.pathText() != after.pathText()) *pathChanged = true;
  return Verdict::pass();
}

template <class A> static Verdict check_history(const Fields &f, std::string *desc) {
  World<A> w;
  for (auto &op : ops_from_fields(f)) w.exec(op);
  std::vector<int> v = w.made_first(), rs;
  for (int k : v) if (!w.borrowed_by_others(k)) rs.push_back(k);  // R is modified in place: nobody may borrow from it
  if (rs.empty() || v.empty()) return Verdict::discard();
  int i = rs[(size_t)f.geti("hi") % rs.size()], j = v[(size_t)f.geti("hj") % v.size()];
  std::string rt, bt;
  if (!w.faithful_text(i, &rt) || !w.faithful_text(j, &bt)) { stats().hit("history_operand_not_text_faithful"); return Verdict::pass(); }
  MUri MR = m_split(rt), MB = m_split(bt);
  if (!MB.hasScheme || has_pct_dot(MR.path)) { stats().hit("history_operands_outside_the_statement"); return Verdict::pass(); }
  bool pc = false, sw = false;
  *desc = "R(" + w.at(i).origin + ")=" + esc(rt) + " B(" + w.at(j).origin + ")=" + esc(bt);
  std::string origin = w.at(i).origin;
  Verdict r = check_type<A>(bt, rt, MR, &pc, (int)f.geti("owned"), 0, &sw, &w.at(i).uri);
  w.at(i).borrows.clear();  // full normalisation made it owner (or it failed and is only released)
  if (r.kind == Verdict::PASS) { stats().hit("history_R_origin=" + origin.substr(0, 1)); if (pc) stats().hit("history_R_path_changed"); }
  return r;
}

static Verdict check(const Fields &f) {
  if (f.has("n")) {
    for (auto &op : ops_from_fields(f)) if (op.kind == 'P' && !uriref_matcher().matches(op.text)) return Verdict::discard();
    std::string d, d2;
    Verdict v = check_history<Api<char>>(f, &d);
    if (v.kind != Verdict::PASS) return v;
    v = check_history<Api<wchar_t>>(f, &d2);
    if (v.kind != Verdict::PASS) return v;
    stats().hit("arm=operands_from_history");
    if (!d.empty()) stats().nontrivial(f.text(), d);
    return Verdict::pass();
  }
  std::string bt = f.get("base"), rt = f.get("ref");
  if (!uriref_matcher().matches(bt) || !uriref_matcher().matches(rt)) return Verdict::discard();
  MUri MR = m_split(rt), MB = m_split(bt);
  if (!MB.hasScheme) return Verdict::discard();
  if (has_pct_dot(MR.path)) return Verdict::discard();  // outside the statement; the generator is built not to produce these
  bool pc = false;
  int owned = (int)f.geti("owned"), fault = (int)f.geti("fault");
  bool sw = false;
  Verdict v = check_type<Api<char>>(bt, rt, MR, &pc, owned, fault, &sw);
  if (v.kind != Verdict::PASS) return v;
  v = check_type<Api<wchar_t>>(bt, rt, MR, &pc, owned, fault, &sw);
  if (v.kind != Verdict::PASS) return v;
  if (owned) stats().hit("R_made_owner_first");
  if (fault) stats().hit("R_normalised_under_fault_plan");
  if (sw) stats().hit("fault_bit_but_success_reported");
  Stats &S = stats();
  static const char *kinds[] = {"ref=same_scheme_absolute", "ref=other_scheme_absolute", "ref=network_path", "ref=absolute_path", "ref=relative_path", "ref=empty_path"};
  if (f.geti("kind") < 6) S.hit(kinds[f.geti("kind") % 6]); else S.hit("ref=enumerated");
  S.hit(MB.hasAuth ? "base=authority" : MB.path.empty() ? "base=empty_path" : MB.path[0] == '/' ? "base=rooted" : "base=rootless");
  MNormPath np = m_norm_path(MR);
  static const char *cn[] = {"dots=plain", "dots=cancel_completely", "dots=expose_empty_segment", "dots=expose_colon_segment", "dots=expose_slashslash"};
  if (np.dotsRemoved) S.hit(cn[np.corner]); else S.hit("dots=none");
  if (!MR.path.empty() && MR.path.compare(0, 2, "..") == 0) S.hit("leading_dotdot_run");
  bool relOrAbsPath = !MR.hasScheme && !MR.hasAuth && !MR.path.empty();
  if (relOrAbsPath && pc) S.nontrivial(f.text(), "R=" + esc(rt) + " B=" + esc(bt));
  return Verdict::pass();
}

// every (base, reference) pair of the bounded path domain; R normalised borrowed and after make-owner
static Verdict enumerate(int tier, int shard, int nshards, Fields *failing) {
  static PathDomain d = path_domain(tier);
  uint64_t nb = d.bases.size(), nr = d.refs.size();
  return enum_drive(nb * nr * 2, shard, nshards, check, [&](uint64_t i) {
    Fields f;
    f.set("base", d.bases[(size_t)(i / 2 / nr)]); f.set("ref", d.refs[(size_t)(i / 2 % nr)]);
    f.seti("kind", 9); f.seti("owned", (long long)(i & 1)); f.seti("fault", 0);
    return f;
  }, failing);
}

const Harness vf::HARNESS = {"C09", gen, check, enumerate, nullptr};
