// C05  String output never exceeds the caller's buffer; reported sizes are exact.
// Domain: URIs from three sources (parsed, resolved, normalised) x EVERY capacity
// from -2 to N+3 (N = required length), charsWritten NULL or not, both character
// types. The destination is a guard-page buffer of exactly max(c,0) characters, so
// a single character written beyond the stated capacity faults.
#include <climits>
#include "gen.hpp"
#include "parse_common.hpp"

using namespace vf;

static Fields gen(Tape &t) {
  Fields f;
  LongMode lm(t);
  if (lm.on()) f.seti("long", 1);
  int src = t.weighted({4, 4, 3, 3, 2});  // parsed / resolved / normalised / created reference / survivor of a failed in-place step
  f.seti("src", src);
  if (src == 3) {
    GenUri S, B; int k;
    g_source_base(t, &S, &B, &k);
    f.set("base", B.text());
    f.set("text", S.text());
    f.seti("opt", t.below(2));
  } else if (src == 1) {
    GenUri b = g_base(t, true);
    GenUri r = g_ref(t, b);
    f.set("base", b.text());
    f.set("text", r.text());
    f.seti("opt", t.below(2));
  } else {
    f.set("text", g_uri(t));
    if (src == 2) f.seti("mask", t.chance(1, 2) ? 63 : t.below(64));
    if (src == 4) { f.seti("mask", t.chance(1, 2) ? 63 : t.below(64)); f.seti("failat", t.range(1, 8)); f.seti("viaowner", t.below(2)); }
  }
  f.seti("cwnull", t.below(3) == 0);
  f.seti("owned", t.chance(3, 4) ? 0 : 1);  // uriMakeOwner on the object before it is written out
  return f;
}

static GuardBuf &gb() { static GuardBuf g(128); return g; }  // 512 KiB: long-mode texts reach ~25k characters (x4 bytes wide)

template <class A> static Verdict check_type(const Fields &f, bool *nontrivial, std::string *key) {
  using Ch = typename A::Ch;
  int src = (int)f.geti("src");
  Parsed<A> p, pb;
  typename A::Uri res;
  bool haveRes = false;
  const typename A::Uri *u = nullptr;
  parse_via<A>(p, PE_SINGLE_EX, widen<Ch>(f.get("text")));
  if (p.rc != 0) return Verdict::discard();
  if (src == 1 || src == 3) {
    parse_via<A>(pb, PE_SINGLE_EX, widen<Ch>(f.get("base")));
    if (pb.rc != 0) return Verdict::discard();
    int rc = src == 1 ? A::AddBaseUriEx(&res, &p.uri, &pb.uri, (UriResolutionOptions)f.geti("opt"))
                      : A::RemoveBaseUri(&res, &p.uri, &pb.uri, f.geti("opt") ? URI_TRUE : URI_FALSE);
    if (rc != 0) { A::FreeUriMembers(&res); return Verdict::discard(); }
    haveRes = true;
    u = &res;
  } else {
    if (src == 2) {
      int rc = A::NormalizeSyntaxEx(&p.uri, (unsigned)f.geti("mask"));
      VF_REQUIRE(rc == 0, "%s: normalisation failed rc=%d", A::name(), rc);
    }
    if (src == 4) {
      // the object a failed make-owner / normalisation leaves behind (default manager, k-th allocation fails once): whatever
      // state the library left it in, writing it out must respect the capacity and its own chars-required figure
      LibcLedger &L = libc_ledger();
      L.req = 0; L.fail_at = (uint64_t)f.geti("failat");
      int rc = f.geti("viaowner") ? A::MakeOwner(&p.uri) : A::NormalizeSyntaxEx(&p.uri, (unsigned)f.geti("mask"));
      L.fail_at = 0;
      stats().hit(rc == 0 ? "src4:step_succeeded" : "src4:survivor_of_failed_step");
    }
    u = &p.uri;
  }
  struct Cleanup { typename A::Uri *r; bool on; ~Cleanup() { if (on) A::FreeUriMembers(r); } } cl{&res, haveRes};
  if (f.geti("owned")) VF_REQUIRE(A::MakeOwner(haveRes ? &res : &p.uri) == 0, "%s: uriMakeOwner failed", A::name());

  int N = -1;
  VF_REQUIRE(A::ToStringCharsRequired(u, &N) == 0, "%s: charsRequired failed", A::name());
  VF_REQUIRE(N >= 0, "%s: negative charsRequired %d", A::name(), N);
  if (((size_t)N + 8) * sizeof(Ch) > gb().capacity()) return Verdict::discard();  // harness limit (guard buffer), not a property of the library
  // reference text from an ample buffer
  std::vector<Ch> ample((size_t)N + 64, (Ch)0x55);
  int w = -7;
  VF_REQUIRE(A::ToString(ample.data(), u, N + 64, &w) == 0, "%s: uriToString failed with an ample buffer", A::name());
  size_t len = 0;
  while (len < ample.size() && ample[len] != 0) len++;
  VF_REQUIRE((int)len == N, "%s: charsRequired=%d but the text has %zu characters", A::name(), N, len);
  VF_REQUIRE(w == N + 1, "%s: charsWritten=%d with an ample buffer, expected %d", A::name(), w, N + 1);
  for (size_t i = len + 1; i < ample.size(); i++) VF_REQUIRE(ample[i] == (Ch)0x55, "%s: wrote past the terminator at %zu", A::name(), i);

  bool cwnull = f.geti("cwnull") != 0;
  int pieces = (u->scheme.first != nullptr) + (u->hostText.first != nullptr || u->hostData.ip4 || u->hostData.ip6) + (u->pathHead != nullptr) +
               (u->query.first != nullptr) + (u->fragment.first != nullptr) + (u->userInfo.first != nullptr) + (u->portText.first != nullptr);
  std::vector<int> caps;
  if (N <= 256) for (int c = -2; c <= N + 3; c++) caps.push_back(c);
  else { for (int c = -2; c <= 8; c++) caps.push_back(c); for (int c = N - 8; c <= N + 3; c++) caps.push_back(c); int stride = N / 64 > 7 ? N / 64 : 7; for (int c = 9; c < N - 8; c += stride) caps.push_back(c); }  // about 64 interior capacities for long texts
  for (int c : {INT_MIN, INT_MIN + 1, -INT_MAX / 2}) caps.push_back(c);  // "no room" in its most extreme spellings
  for (int c : caps) {
    size_t cap = c > 0 ? (size_t)c : 0;
    Ch *dest = gb().right_chars<Ch>(cap);
    for (size_t i = 0; i < cap; i++) dest[i] = (Ch)0xAA;
    int cw = -7;
    int rc = A::ToString(dest, u, c, cwnull ? nullptr : &cw);
    stats().sub_evaluations++;
    if (c >= N + 1) {
      VF_REQUIRE(rc == 0, "%s: capacity %d >= N+1=%d but rc=%d", A::name(), c, N + 1, rc);
      if (!cwnull) VF_REQUIRE(cw == N + 1, "%s: capacity %d: charsWritten=%d, expected %d", A::name(), c, cw, N + 1);
      VF_REQUIRE(memcmp(dest, ample.data(), ((size_t)N + 1) * sizeof(Ch)) == 0, "%s: capacity %d: text differs from the ample-buffer text", A::name(), c);
      for (size_t i = (size_t)N + 1; i < cap; i++) VF_REQUIRE(dest[i] == (Ch)0xAA, "%s: capacity %d: wrote past the terminator", A::name(), c);
    } else {
      VF_REQUIRE(rc == URI_ERROR_TOSTRING_TOO_LONG, "%s: capacity %d < N+1=%d but rc=%d", A::name(), c, N + 1, rc);
      if (!cwnull) VF_REQUIRE(cw == 0, "%s: capacity %d too small but charsWritten=%d", A::name(), c, cw);
      if (c >= 1) VF_REQUIRE(dest[0] == 0, "%s: capacity %d too small but the destination is not an empty string", A::name(), c);
      if (pieces >= 3 && c > 0) *nontrivial = true;
    }
  }
  // one arena: the destination begins exactly where the (unterminated) text the URI was parsed from ends
  if (src == 0 && !f.geti("owned")) {
    std::basic_string<Ch> tx = widen<Ch>(f.get("text"));
    for (int c : {N + 1, N, N / 2, 1}) {
      size_t cap = c > 0 ? (size_t)c : 0, tl = tx.size();
      if ((tl + cap) * sizeof(Ch) > gb().capacity()) continue;
      Ch *base = gb().right_chars<Ch>(tl + cap), *dest = base + tl;
      if (tl) memcpy(base, tx.data(), tl * sizeof(Ch));
      for (size_t i = 0; i < cap; i++) dest[i] = (Ch)0xAA;
      typename A::Uri v;
      const Ch *ep = nullptr;
      if (A::ParseSingleUriEx(&v, base, base + tl, &ep) != 0) { A::FreeUriMembers(&v); break; }
      int cw = -7;
      int rc = A::ToString(dest, &v, c, &cw);
      stats().sub_evaluations++;
      bool inputKept = tl == 0 || memcmp(base, tx.data(), tl * sizeof(Ch)) == 0;
      bool textOk = c >= N + 1 && rc == 0 && memcmp(dest, ample.data(), ((size_t)N + 1) * sizeof(Ch)) == 0;
      A::FreeUriMembers(&v);
      VF_REQUIRE(inputKept, "%s: destination directly behind the parsed text, capacity %d: the text was modified", A::name(), c);
      if (c >= N + 1) VF_REQUIRE(textOk && cw == N + 1, "%s: destination directly behind the parsed text, capacity %d >= N+1=%d: rc=%d charsWritten=%d or wrong text", A::name(), c, N + 1, rc, cw);
      else VF_REQUIRE(rc == URI_ERROR_TOSTRING_TOO_LONG && cw == 0 && (c < 1 || dest[0] == 0), "%s: destination directly behind the parsed text, capacity %d < N+1=%d: rc=%d charsWritten=%d", A::name(), c, N + 1, rc, cw);
    }
    stats().hit("destination_directly_behind_the_text");
  }
  *key = f.text();
  return Verdict::pass();
}

static Verdict check(const Fields &f) {
  bool nt = false;
  std::string key;
  Verdict v = check_type<Api<char>>(f, &nt, &key);
  if (v.kind != Verdict::PASS) return v;
  v = check_type<Api<wchar_t>>(f, &nt, &key);
  if (v.kind != Verdict::PASS) return v;
  stats().hit("src=" + std::to_string(f.geti("src")));
  stats().hit(f.geti("cwnull") ? "charsWritten=NULL" : "charsWritten=given");
  if (nt) stats().nontrivial(key, f.get("text") + (f.has("base") ? "  base=" + f.get("base") : "") + (f.has("mask") ? "  mask=" + std::to_string(f.geti("mask")) : ""));
  return Verdict::pass();
}

const Harness vf::HARNESS = {"C05", gen, check, nullptr, nullptr};
