// C12  Owned URIs are independent of their source; borrowed text is never altered.
// Histories ending in make-owner or normalisation with a non-zero mask on an
// object that was parsed, resolved or relativised (so it may borrow from two texts
// and from library constants). Afterwards every source text is overwritten and
// freed and every other object released: the object must still recompose to the
// same text with the same components (ASan sees any touch of the freed sources).
// Every call is bracketed: read-only URI arguments bit-for-bit, input texts byte
// for byte.
#include <sys/mman.h>
#include <map>
#include "hist.hpp"

using namespace vf;

static Fields gen(Tape &t) {
  Fields f;
  LongMode lm(t);  // one history in 16 with long texts: paths of several hundred segments, components of 1024 / 4096 characters
  if (lm.on()) f.seti("long", 1);
  std::vector<Op> ops = g_history(t, SEG_ANY, true, 7);
  Op fin;
  fin.kind = t.coin() ? 'O' : 'N';
  fin.i = (int)t.below(64);
  fin.arg = 1 + (int)t.below(63);  // non-zero mask
  if (t.chance(1, 10)) { static const int wide[] = {64, 128, 1 << 20, (int)0x80000000u, ~63, -1, 64 + 8}; fin.arg = wide[t.below(7)]; }  // bits beyond the documented six
  ops.push_back(fin);
  ops_to_fields(f, ops);
  // in a quarter of the cases the k-th allocation of the final step fails once: a failing make-owner / normalisation
  // must leave the caller's texts and the other objects alone just like a successful one
  f.seti("fault", t.chance(3, 4) ? 0 : t.range(1, 8));
  // and in one history out of five the k-th allocation of every resolve / create-reference / normalise / make-owner step
  // before the final one fails once as well: read-only operands and the caller's texts must survive those, too
  f.seti("stepfault", t.chance(4, 5) ? 0 : t.range(1, 6));
  return f;
}

template <class A> static Verdict run(const std::vector<Op> &ops, int fault, int stepfault, bool *nontrivial, std::string *desc) {
  World<A> w;
  w.audit = true;
  LibcLedger &LL = libc_ledger();
  struct Off { LibcLedger &l; ~Off() { l.fail_at = 0; } } off{LL};
  for (size_t k = 0; k + 1 < ops.size(); k++) {
    LL.fail_at = 0;
    if (stepfault > 0 && strchr("RBNO", ops[k].kind)) { LL.req = 0; LL.fail_at = (uint64_t)stepfault; }
    w.exec(ops[k]);
    LL.fail_at = 0;
    stats().sub_evaluations++;
    if (!w.auditError.empty()) return Verdict::fail(std::string(A::name()) + ": op " + std::to_string(k) + " (" + ops[k].str() + "): " + w.auditError);
  }
  const Op &fin = ops.back();
  int n = w.size();
  if (!n) return Verdict::pass();
  // final step on an object nobody borrows from (otherwise the in-place change would be illegal for the caller)
  int u = -1;
  for (int d = 0; d < n; d++) { int c = (((fin.i + d) % n) + n) % n; if (w.at(c).valid && !w.borrowed_by_others(c)) { u = c; break; } }
  if (u < 0) return Verdict::pass();
  typename World<A>::Obj &U = w.at(u);
  bool wasOwner = U.uri.owner != 0;
  int sources = (int)U.borrows.size();
  Snap before = snapshot<A>(U.uri);
  std::string textBefore;
  VF_REQUIRE(to_string<A>(U.uri, &textBefore), "%s: uriToString failed before the final step", A::name());
  Op f2 = fin; f2.i = u;
  LibcLedger &L = LL;
  if (fault > 0) { L.req = 0; L.fail_at = (uint64_t)fault; }
  typename World<A>::Res r = w.exec(f2);
  bool bit = fault > 0 && L.req >= (uint64_t)fault;
  L.fail_at = 0;
  if (bit && r.rc != 0) {
    // the step ran out of memory: the caller's texts and every other object must be untouched (bracketing above), and
    // everything can still be released (ASan: no free of memory the library does not own)
    if (!w.auditError.empty()) return Verdict::fail(std::string(A::name()) + ": final op (" + f2.str() + ") with allocation " + std::to_string(fault) + " failing: " + w.auditError);
    VF_REQUIRE(r.rc == URI_ERROR_MALLOC, "%s: final op %s: allocation %d failed but rc=%d", A::name(), f2.str().c_str(), fault, r.rc);
    std::string others;
    for (int k = 0; k < w.size(); k++) if (k != u && w.at(k).valid) { std::string tx; VF_REQUIRE(to_string<A>(w.at(k).uri, &tx), "%s: another object became unreadable after a failed %s", A::name(), f2.str().c_str()); }
    w.release_all();
    stats().hit("final_step_ran_out_of_memory");
    return Verdict::pass();
  }
  if (!w.auditError.empty()) return Verdict::fail(std::string(A::name()) + ": final op (" + f2.str() + "): " + w.auditError);
  if (r.skipped) return Verdict::pass();
  VF_REQUIRE(r.rc == 0, "%s: final op %s failed rc=%d", A::name(), f2.str().c_str(), r.rc);
  VF_REQUIRE(U.uri.owner == URI_TRUE, "%s: after %s the URI is not flagged as owner", A::name(), f2.str().c_str());
  Snap after = snapshot<A>(U.uri);
  std::string textAfter;
  VF_REQUIRE(to_string<A>(U.uri, &textAfter), "%s: uriToString failed after the final step", A::name());
  if (fin.kind == 'O') {
    VF_REQUIRE(textAfter == textBefore, "%s: make-owner changed the text from '%s' to '%s'", A::name(), esc(textBefore).c_str(), esc(textAfter).c_str());
    VF_REQUIRE(before.sameAs(after), "%s: make-owner changed components: %s -> %s", A::name(), before.describe().c_str(), after.describe().c_str());
  }
  // "overwriting the original string changes neither its components nor its recomposed text": the first way to overwrite it
  // is to write the recomposed text over it (the URI no longer needs its source, so the caller reuses the buffer)
  for (int k = 0; k < w.size(); k++) {
    typename World<A>::Obj &o = w.at(k);
    if (!o.buf || o.buflen < textAfter.size() + 1) continue;
    int cw = -7;
    int rc = A::ToString(o.buf.get(), &U.uri, (int)o.buflen, &cw);
    VF_REQUIRE(rc == 0 && cw == (int)textAfter.size() + 1, "%s: writing the owned URI's text over one of the original strings (%zu characters) failed: rc=%d charsWritten=%d", A::name(), o.buflen, rc, cw);
    VF_REQUIRE(narrow<typename A::Ch>(o.buf.get(), o.buf.get() + textAfter.size()) == textAfter, "%s: written over one of the original strings the text is not '%s'", A::name(), esc(textAfter).c_str());
    stats().hit("recomposed_over_an_original_string");
    break;
  }
  // now take everything else away
  w.release_others(u);
  w.scribble_sources();
  std::string textLater;
  VF_REQUIRE(to_string<A>(U.uri, &textLater), "%s: uriToString failed after the sources were released", A::name());
  VF_REQUIRE(textLater == textAfter, "%s: after releasing the sources the text changed from '%s' to '%s'", A::name(), esc(textAfter).c_str(), esc(textLater).c_str());
  Snap later = snapshot<A>(U.uri);
  VF_REQUIRE(after.sameAs(later, false), "%s: after releasing the sources the components changed: %s -> %s", A::name(), after.describe().c_str(), later.describe().c_str());
  std::string wf = wellformed<A>(U.uri);
  VF_REQUIRE(wf.empty(), "%s: owned URI not well formed: %s", A::name(), wf.c_str());
  // release U itself (ASan: no touch of freed memory, LSan: nothing left)
  w.release_all();
  int comps = (after.scheme.has_value() && !after.scheme->empty()) + (after.hasAuth() && after.host && !after.host->empty()) + (after.user && !after.user->empty()) +
              (after.port && !after.port->empty()) + (!after.pathText().empty()) + (after.query && !after.query->empty()) + (after.frag && !after.frag->empty());
  bool hasHost = after.hasAuth() && ((after.host && !after.host->empty()) || after.hostKind >= HK_IP4);
  if (!wasOwner && ((comps >= 3 && hasHost) || sources >= 2)) *nontrivial = true;
  *desc = std::string(fin.kind == 'O' ? "make-owner" : "normalize") + " on '" + textBefore + "' borrowing from " + std::to_string(sources) + " source(s)";
  static const char *hk[] = {"final_host=none", "final_host=regname", "final_host=ipv4", "final_host=ipv6", "final_host=ipvfuture"};
  stats().hit(hk[after.hostKind]);
  stats().hit(fin.kind == 'O' ? "final=make_owner" : "final=normalize");
  stats().hit(wasOwner ? "already_owner" : sources >= 2 ? "borrowed_from_2plus" : "borrowed_from_1");
  return Verdict::pass();
}

static Verdict check(const Fields &f) {
  std::vector<Op> ops = ops_from_fields(f);
  if (ops.empty()) return Verdict::discard();
  for (auto &op : ops) if (op.kind == 'P' && !uriref_matcher().matches(op.text)) return Verdict::discard();
  bool nt = false; std::string d;
  int fault = (int)f.geti("fault");
  int stepfault = (int)f.geti("stepfault");
  Verdict v = run<Api<char>>(ops, fault, stepfault, &nt, &d);
  if (v.kind != Verdict::PASS) return v;
  bool nt2 = false; std::string d2;
  v = run<Api<wchar_t>>(ops, fault, stepfault, &nt2, &d2);
  if (stepfault) stats().hit("histories_with_step_faults");
  if (v.kind != Verdict::PASS) return v;
  if (nt) stats().nontrivial(f.text(), d);
  return Verdict::pass();
}

// ---- components of 2^29 / 2^30 characters (fixed probes, one shard each) -----------------------------------------------
// "holds its own copies of all its text ... its content equals what it was before the copy" for a component whose size
// in BYTES no longer fits an int although its length in characters does (wchar_t: 2^29 characters are 2^31 bytes, 2^30
// are 2^32). The text is '?' followed by n times 'a': a 2 MiB memfd of 'a' mapped over and over behind one private page,
// so the source costs a few MB. The URI is what parsing that text yields - everything absent except the query
// [text+1, text+1+n) - and is set up by parsing the two-character prefix "?a" and extending the query range over the rest
// (parsing all n characters is left out only because the parser recurses once per character and this build, -O1 for the
// sanitizers, does not turn that into a loop; regress/C12/F-W1-demo.c does the real parse with -O2).
// The manager hands out untouched mappings and records the sizes asked for: a make-owner that does not ask for exactly
// n characters' worth of bytes is reported before anything is read through the resulting range.
struct BigMapMM {
  UriMemoryManager backend, mm;
  std::map<void *, size_t> live;
  std::vector<size_t> asked;
  uint64_t bad = 0;
  BigMapMM() {
    memset(&backend, 0, sizeof backend);
    backend.malloc = &s_malloc; backend.free = &s_free; backend.userData = this;
    uriCompleteMemoryManager(&mm, &backend);
  }
  static void *s_malloc(UriMemoryManager *m, size_t n) {
    BigMapMM *self = (BigMapMM *)m->userData;
    self->asked.push_back(n);
    void *p = mmap(nullptr, n ? n : 1, PROT_READ | PROT_WRITE, MAP_PRIVATE | MAP_ANONYMOUS | MAP_NORESERVE, -1, 0);
    if (p == MAP_FAILED) { errno = ENOMEM; return nullptr; }
    self->live[p] = n ? n : 1;
    return p;
  }
  static void s_free(UriMemoryManager *m, void *p) {
    BigMapMM *self = (BigMapMM *)m->userData;
    if (!p) return;
    auto it = self->live.find(p);
    if (it == self->live.end()) { self->bad++; return; }
    munmap(p, it->second);
    self->live.erase(it);
  }
};
template <class A> static Verdict huge_component_probe(int log2n, bool viaNormalize) {
  using Ch = typename A::Ch;
  const size_t n = (size_t)1 << log2n, CH = 2u << 20, page = (size_t)sysconf(_SC_PAGESIZE);
  if (sizeof(size_t) < 8) return Verdict::pass();
  if ((double)sysconf(_SC_AVPHYS_PAGES) * (double)page < 16.0 * 1024 * 1024 * 1024) { stats().relax("huge_component_probe:less_than_16GiB_free"); return Verdict::pass(); }
  size_t bytes = ((n * sizeof(Ch) + CH - 1) / CH) * CH;
  int fd = memfd_create("vf_c12_huge", 0);
  if (fd < 0) { stats().relax("huge_component_probe:no_memfd"); return Verdict::pass(); }
  { std::vector<Ch> chunk(CH / sizeof(Ch), (Ch)'a'); if (write(fd, chunk.data(), CH) != (ssize_t)CH) { close(fd); stats().relax("huge_component_probe:no_memfd"); return Verdict::pass(); } }
  char *base = (char *)mmap(nullptr, page + bytes, PROT_READ | PROT_WRITE, MAP_PRIVATE | MAP_ANONYMOUS | MAP_NORESERVE, -1, 0);
  if (base == MAP_FAILED) { close(fd); stats().relax("huge_component_probe:no_address_space"); return Verdict::pass(); }
  struct Unmap { char *b; size_t l; int fd; ~Unmap() { munmap(b, l); close(fd); } } unmap{base, page + bytes, fd};
  for (size_t off = 0; off < bytes; off += CH)
    if (mmap(base + page + off, CH, PROT_READ, MAP_SHARED | MAP_FIXED, fd, 0) == MAP_FAILED) { stats().relax("huge_component_probe:no_address_space"); return Verdict::pass(); }
  Ch *text = (Ch *)(base + page) - 1;
  text[0] = (Ch)'?';
  typename A::Uri u;
  memset(&u, 0xA5, sizeof u);
  const Ch *ep = nullptr;
  BigMapMM M;
  VF_REQUIRE(A::ParseSingleUriExMm(&u, text, text + 2, &ep, &M.mm) == 0, "%s: huge component probe: parsing '?a' failed", A::name());
  struct Rel { typename A::Uri *u; UriMemoryManager *m; ~Rel() { A::FreeUriMembersMm(u, m); } } rel{&u, &M.mm};
  VF_REQUIRE(u.query.first == text + 1 && u.query.afterLast == text + 2 && !u.owner && !u.pathHead && !u.scheme.first && !u.hostText.first && !u.fragment.first,
             "%s: huge component probe: '?a' did not parse to a lone query", A::name());
  u.query.afterLast = text + 1 + n;  // the parse of '?' + n x 'a'
  M.asked.clear();
  int rc = viaNormalize ? A::NormalizeSyntaxExMm(&u, URI_NORMALIZE_SCHEME, &M.mm) : A::MakeOwnerMm(&u, &M.mm);
  const char *what = viaNormalize ? "uriNormalizeSyntaxExMm(SCHEME)" : "uriMakeOwnerMm";
  // sizes are judged first: nothing is read through a range whose block was not asked for in full
  size_t want = n * sizeof(Ch);
  bool askedRight = false;
  for (size_t a : M.asked) if (a >= want && a <= want + 64) askedRight = true;  // the completed manager adds its size header
  if (!askedRight) {
    std::string sizes;
    for (size_t a : M.asked) sizes += " " + std::to_string(a);
    if (rc == 0) u.query.afterLast = u.query.first;  // keep the clean-up from walking a range that is not there
    VF_FAIL("%s: %s on a URI with a query of 2^%d characters (rc=%d): a block of %zu bytes is needed for its copy, the manager was asked for:%s", A::name(), what, log2n, rc, want, sizes.c_str());
  }
  if (rc == URI_ERROR_MALLOC && M.live.empty()) { stats().relax("huge_component_probe:memory_refused"); return Verdict::pass(); }
  VF_REQUIRE(rc == 0, "%s: %s on a URI with a query of 2^%d characters: rc=%d", A::name(), what, log2n, rc);
  VF_REQUIRE(u.owner == URI_TRUE, "%s: %s: not flagged as owner", A::name(), what);
  VF_REQUIRE(u.query.first != text + 1 && (size_t)(u.query.afterLast - u.query.first) == n, "%s: %s: the owned query has %td characters instead of 2^%d", A::name(), what, u.query.afterLast - u.query.first, log2n);
  for (size_t i : {(size_t)0, (size_t)1, n / 4 - 1, n / 4, n / 2 - 1, n / 2, n / 2 + 1, 3 * (n / 4), n - 2, n - 1})
    VF_REQUIRE(u.query.first[i] == (Ch)'a', "%s: %s: character %zu of the owned query of 2^%d characters is %ld, not 'a' (the copy is incomplete)", A::name(), what, i, log2n, (long)u.query.first[i]);
  int need = 0;
  VF_REQUIRE(A::ToStringCharsRequired(&u, &need) == 0 && (size_t)need == n + 1, "%s: chars required of the owned URI is %d, expected 2^%d + 1", A::name(), need, log2n);
  A::FreeUriMembersMm(&u, &M.mm);
  VF_REQUIRE(M.live.empty() && M.bad == 0, "%s: huge component probe: manager ledger unbalanced after release (%zu live, %llu bad frees)", A::name(), M.live.size(), (unsigned long long)M.bad);
  return Verdict::pass();
}
static Verdict huge_dispatch(const Fields &f) {
  int l2 = (int)f.geti("huge_component_log2");
  bool vn = f.geti("via_normalize") != 0;
  return f.get("char") == "A" ? huge_component_probe<Api<char>>(l2, vn) : huge_component_probe<Api<wchar_t>>(l2, vn);
}
static Verdict enumerate(int tier, int shard, int nshards, Fields *failing) {
  (void)tier;
  // six probes, spread over the first shards (each needs a few GiB for a moment)
  static const struct { const char *ch; int l2; int vn; } P[] = {{"W", 29, 0}, {"W", 30, 0}, {"A", 30, 0}, {"W", 29, 1}, {"W", 30, 1}, {"A", 29, 0}};
  for (int k = 0; k < 6; k++) {
    if (k % nshards != shard) continue;
    Fields c;
    c.seti("huge_component_log2", P[k].l2); c.set("char", P[k].ch); c.seti("via_normalize", P[k].vn);
    note_case(c);
    Verdict v = huge_dispatch(c);
    stats().evaluations++;
    if (v.kind == Verdict::FAIL) {
      if (!v.klass.empty() && known_open(v.klass)) { stats().excluded_known[v.klass]++; continue; }
      *failing = c;
      return v;
    }
    stats().hit("huge_component_probes");
    stats().nontrivial(c.text(), std::string(P[k].ch) + ": " + (P[k].vn ? "normalise(SCHEME)" : "make-owner") + " on '?' + 2^" + std::to_string(P[k].l2) + " x 'a'");
  }
  return Verdict::pass();
}
static Verdict check_dispatch(const Fields &f) { return f.has("huge_component_log2") ? huge_dispatch(f) : check(f); }

const Harness vf::HARNESS = {"C12", gen, check_dispatch, enumerate, nullptr};
