// C12  Owned URIs are independent of their source; borrowed text is never altered.
// Histories ending in make-owner or normalisation with a non-zero mask on an
// object that was parsed, resolved or relativised (so it may borrow from two texts
// and from library constants). Afterwards every source text is overwritten and
// freed and every other object released: the object must still recompose to the
// same text with the same components (ASan sees any touch of the freed sources).
// Every call is bracketed: read-only URI arguments bit-for-bit, input texts byte
// for byte.
#include "hist.hpp"

using namespace vf;

static Fields gen(Tape &t) {
  Fields f;
  std::vector<Op> ops = g_history(t, SEG_ANY, true, 7);
  Op fin;
  fin.kind = t.coin() ? 'O' : 'N';
  fin.i = (int)t.below(64);
  fin.arg = 1 + (int)t.below(63);  // non-zero mask
  if (t.chance(1, 10)) { static const int wide[] = {64, 128, 1 << 20, (int)0x80000000u, ~63, -1, 64 + 8}; fin.arg = wide[t.below(7)]; }  // bits beyond the documented six
  ops.push_back(fin);
  ops_to_fields(f, ops);
  // in a quarter of the cases the k-th allocation of the final step fails once: a failing make-owner / normalisation
  // must leave the caller's texts and the other objects alone just like a successful one
  f.seti("fault", t.chance(3, 4) ? 0 : t.range(1, 8));
  // and in one history out of five the k-th allocation of every resolve / create-reference / normalise / make-owner step
  // before the final one fails once as well: read-only operands and the caller's texts must survive those, too
  f.seti("stepfault", t.chance(4, 5) ? 0 : t.range(1, 6));
  return f;
}

template <class A> static Verdict run(const std::vector<Op> &ops, int fault, int stepfault, bool *nontrivial, std::string *desc) {
  World<A> w;
  w.audit = true;
  LibcLedger &LL = libc_ledger();
  struct Off { LibcLedger &l; ~Off() { l.fail_at = 0; } } off{LL};
  for (size_t k = 0; k + 1 < ops.size(); k++) {
    LL.fail_at = 0;
    if (stepfault > 0 && strchr("RBNO", ops[k].kind)) { LL.req = 0; LL.fail_at = (uint64_t)stepfault; }
    w.exec(ops[k]);
    LL.fail_at = 0;
    stats().sub_evaluations++;
    if (!w.auditError.empty()) return Verdict::fail(std::string(A::name()) + ": op " + std::to_string(k) + " (" + ops[k].str() + "): " + w.auditError);
  }
  const Op &fin = ops.back();
  int n = w.size();
  if (!n) return Verdict::pass();
  // final step on an object nobody borrows from (otherwise the in-place change would be illegal for the caller)
  int u = -1;
  for (int d = 0; d < n; d++) { int c = (((fin.i + d) % n) + n) % n; if (w.at(c).valid && !w.borrowed_by_others(c)) { u = c; break; } }
  if (u < 0) return Verdict::pass();
  typename World<A>::Obj &U = w.at(u);
  bool wasOwner = U.uri.owner != 0;
  int sources = (int)U.borrows.size();
  Snap before = snapshot<A>(U.uri);
  std::string textBefore;
  VF_REQUIRE(to_string<A>(U.uri, &textBefore), "%s: uriToString failed before the final step", A::name());
  Op f2 = fin; f2.i = u;
  LibcLedger &L = LL;
  if (fault > 0) { L.req = 0; L.fail_at = (uint64_t)fault; }
  typename World<A>::Res r = w.exec(f2);
  bool bit = fault > 0 && L.req >= (uint64_t)fault;
  L.fail_at = 0;
  if (bit && r.rc != 0) {
    // the step ran out of memory: the caller's texts and every other object must be untouched (bracketing above), and
    // everything can still be released (ASan: no free of memory the library does not own)
    if (!w.auditError.empty()) return Verdict::fail(std::string(A::name()) + ": final op (" + f2.str() + ") with allocation " + std::to_string(fault) + " failing: " + w.auditError);
    VF_REQUIRE(r.rc == URI_ERROR_MALLOC, "%s: final op %s: allocation %d failed but rc=%d", A::name(), f2.str().c_str(), fault, r.rc);
    std::string others;
    for (int k = 0; k < w.size(); k++) if (k != u && w.at(k).valid) { std::string tx; VF_REQUIRE(to_string<A>(w.at(k).uri, &tx), "%s: another object became unreadable after a failed %s", A::name(), f2.str().c_str()); }
    w.release_all();
    stats().hit("final_step_ran_out_of_memory");
    return Verdict::pass();
  }
  if (!w.auditError.empty()) return Verdict::fail(std::string(A::name()) + ": final op (" + f2.str() + "): " + w.auditError);
  if (r.skipped) return Verdict::pass();
  VF_REQUIRE(r.rc == 0, "%s: final op %s failed rc=%d", A::name(), f2.str().c_str(), r.rc);
  VF_REQUIRE(U.uri.owner == URI_TRUE, "%s: after %s the URI is not flagged as owner", A::name(), f2.str().c_str());
  Snap after = snapshot<A>(U.uri);
  std::string textAfter;
  VF_REQUIRE(to_string<A>(U.uri, &textAfter), "%s: uriToString failed after the final step", A::name());
  if (fin.kind == 'O') {
    VF_REQUIRE(textAfter == textBefore, "%s: make-owner changed the text from '%s' to '%s'", A::name(), esc(textBefore).c_str(), esc(textAfter).c_str());
    VF_REQUIRE(before.sameAs(after), "%s: make-owner changed components: %s -> %s", A::name(), before.describe().c_str(), after.describe().c_str());
  }
  // now take everything else away
  w.release_others(u);
  w.scribble_sources();
  std::string textLater;
  VF_REQUIRE(to_string<A>(U.uri, &textLater), "%s: uriToString failed after the sources were released", A::name());
  VF_REQUIRE(textLater == textAfter, "%s: after releasing the sources the text changed from '%s' to '%s'", A::name(), esc(textAfter).c_str(), esc(textLater).c_str());
  Snap later = snapshot<A>(U.uri);
  VF_REQUIRE(after.sameAs(later, false), "%s: after releasing the sources the components changed: %s -> %s", A::name(), after.describe().c_str(), later.describe().c_str());
  std::string wf = wellformed<A>(U.uri);
  VF_REQUIRE(wf.empty(), "%s: owned URI not well formed: %s", A::name(), wf.c_str());
  // release U itself (ASan: no touch of freed memory, LSan: nothing left)
  w.release_all();
  int comps = (after.scheme.has_value() && !after.scheme->empty()) + (after.hasAuth() && after.host && !after.host->empty()) + (after.user && !after.user->empty()) +
              (after.port && !after.port->empty()) + (!after.pathText().empty()) + (after.query && !after.query->empty()) + (after.frag && !after.frag->empty());
  bool hasHost = after.hasAuth() && ((after.host && !after.host->empty()) || after.hostKind >= HK_IP4);
  if (!wasOwner && ((comps >= 3 && hasHost) || sources >= 2)) *nontrivial = true;
  *desc = std::string(fin.kind == 'O' ? "make-owner" : "normalize") + " on '" + textBefore + "' borrowing from " + std::to_string(sources) + " source(s)";
  static const char *hk[] = {"final_host=none", "final_host=regname", "final_host=ipv4", "final_host=ipv6", "final_host=ipvfuture"};
  stats().hit(hk[after.hostKind]);
  stats().hit(fin.kind == 'O' ? "final=make_owner" : "final=normalize");
  stats().hit(wasOwner ? "already_owner" : sources >= 2 ? "borrowed_from_2plus" : "borrowed_from_1");
  return Verdict::pass();
}

static Verdict check(const Fields &f) {
  std::vector<Op> ops = ops_from_fields(f);
  if (ops.empty()) return Verdict::discard();
  for (auto &op : ops) if (op.kind == 'P' && !uriref_matcher().matches(op.text)) return Verdict::discard();
  bool nt = false; std::string d;
  int fault = (int)f.geti("fault");
  int stepfault = (int)f.geti("stepfault");
  Verdict v = run<Api<char>>(ops, fault, stepfault, &nt, &d);
  if (v.kind != Verdict::PASS) return v;
  bool nt2 = false; std::string d2;
  v = run<Api<wchar_t>>(ops, fault, stepfault, &nt2, &d2);
  if (stepfault) stats().hit("histories_with_step_faults");
  if (v.kind != Verdict::PASS) return v;
  if (nt) stats().nontrivial(f.text(), d);
  return Verdict::pass();
}

const Harness vf::HARNESS = {"C12", gen, check, nullptr, nullptr};
