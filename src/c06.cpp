// C06  Reference resolution follows RFC 3986 section 5.2.
// Oracle: M_resolve (5.2.2 + 5.2.3 merge + segment-list dot removal + the '//'
// guard) computed from the two TEXTS, compared component for component with the
// destination URI, plus recomposed text and well-formedness.
#include "hist.hpp"
#include "pathenum.hpp"

using namespace vf;

static Fields gen(Tape &t) {
  Fields f;
  // one case in six: reference and base are not parsed from generated texts but are objects a short history of library
  // calls left behind (resolved, created, normalised, owned, read back); the model is fed with the texts they recompose
  // to. Decided first (an exhausted tape decodes to the plain arm, never to an empty history).
  if (t.below(6) == 5) {
    int hi = t.weighted({4, 3, 2, 1}), hj = t.weighted({4, 3, 2, 1});  // rank among the objects left behind, made ones first
    int opt = t.chance(2, 5), api = (int)t.below(3), fault = t.chance(3, 4) ? 0 : t.range(1, 8);
    ops_to_fields(f, g_history(t, SEG_ANY, false, 5));
    f.seti("hi", hi); f.seti("hj", hj);
    f.seti("opt", opt); f.seti("api", api); f.seti("fault", fault);
    return f;
  }
  LongMode lm(t, true);
  if (lm.on()) f.seti("long", 1);
  GenUri b = g_base(t, /*forceScheme=*/false);
  int kind = 0;
  GenUri r = g_ref(t, b, &kind);
  f.set("base", b.text());
  f.set("ref", r.text());
  f.seti("opt", t.chance(2, 5));
  f.seti("api", t.below(3));  // 0 ExMm+ledger, 1 Ex, 2 plain (only when opt == 0)
  f.seti("kind", kind);
  // with the recording manager (api 0): in a quarter of the cases the k-th allocation of the call fails once; a call
  // that then still reports success is held to the model like any other
  f.seti("fault", t.chance(3, 4) ? 0 : t.range(1, 8));
  // ownership state of the operands (0 borrowed, 1 made owner before the call)
  f.seti("rown", t.chance(4, 5) ? 0 : 1);
  f.seti("bown", t.chance(4, 5) ? 0 : 1);
  return f;
}

static bool ieq(const std::string &a, const std::string &b) {
  if (a.size() != b.size()) return false;
  for (size_t i = 0; i < a.size(); i++) if (tolower((unsigned char)a[i]) != tolower((unsigned char)b[i])) return false;
  return true;
}

// Which known-finding class (if any) a failing case belongs to.
static std::string classify(const MUri &B, const MUri &R, const MResolved &m, const Snap &got) {
  (void)B; (void)R;
  std::string gp = got.pathText();
  if (m.rc == 0) {
    // F-R1: the '//' guard is missing although the target is host-less and starts with "//"
    if (m.needsGuard && gp == m.t.path) return "F-R1";
    // F-R2/F-R3: a guard dot was inserted although the RFC path does not start with "//" or an authority is present
    if (!m.needsGuard && (gp == "/." + m.t.path || gp == "./" + m.t.path)) return m.t.hasAuth || !got.absolutePath ? "F-R3" : "F-R2";
  }
  return "";
}

template <class A> static Verdict judge(const Fields &f, typename A::Uri &pr_uri, typename A::Uri &pb_uri, const MUri &MB, const MUri &MR, const MResolved &m, int opt);

template <class A> static Verdict check_type(const Fields &f, const MUri &MB, const MUri &MR, const MResolved &m, int opt) {
  using Ch = typename A::Ch;
  Parsed<A> pb, pr;
  parse_via<A>(pb, PE_SINGLE_EX, widen<Ch>(f.get("base")));
  parse_via<A>(pr, PE_SINGLE_EX, widen<Ch>(f.get("ref")));
  if (pb.rc != 0 || pr.rc != 0) return Verdict::discard();
  if (f.geti("rown")) VF_REQUIRE(A::MakeOwner(&pr.uri) == 0, "%s: uriMakeOwner(reference) failed", A::name());
  if (f.geti("bown")) VF_REQUIRE(A::MakeOwner(&pb.uri) == 0, "%s: uriMakeOwner(base) failed", A::name());
  return judge<A>(f, pr.uri, pb.uri, MB, MR, m, opt);
}

template <class A> static Verdict judge(const Fields &f, typename A::Uri &pr_uri, typename A::Uri &pb_uri, const MUri &MB, const MUri &MR, const MResolved &m, int opt) {
  struct { typename A::Uri &uri; } pr{pr_uri}, pb{pb_uri};
  std::string frozenR = freeze<A>(pr.uri), frozenB = freeze<A>(pb.uri);
  LedgerMM mm;
  typename A::Uri d;
  memset(&d, 0xA5, sizeof d);
  int api = (int)f.geti("api");
  if (opt != 0 && api == 2) api = 1;
  int rc;
  int fault = api == 0 ? (int)f.geti("fault") : 0;
  if (fault > 0) mm.fail_at = (uint64_t)fault;
  if (api == 0) rc = A::AddBaseUriExMm(&d, &pr.uri, &pb.uri, (UriResolutionOptions)opt, &mm.mm);
  else if (api == 1) rc = A::AddBaseUriEx(&d, &pr.uri, &pb.uri, (UriResolutionOptions)opt);
  else rc = A::AddBaseUri(&d, &pr.uri, &pb.uri);
  struct Cleanup {
    typename A::Uri *d; LedgerMM *mm; bool useMm;
    ~Cleanup() { if (useMm) A::FreeUriMembersMm(d, &mm->mm); else A::FreeUriMembers(d); }
  } cl{&d, &mm, api == 0};
  bool bit = mm.failed > 0;
  mm.reset_plan();
  VF_REQUIRE(freeze<A>(pr.uri) == frozenR && freeze<A>(pb.uri) == frozenB, "%s: resolution modified one of its read-only operands", A::name());
  if (bit && rc != 0) {
    VF_REQUIRE(rc == URI_ERROR_MALLOC || (m.rc != 0 && rc == URI_ERROR_ADDBASE_REL_BASE), "%s: allocation %d failed but rc=%d", A::name(), fault, rc);
    stats().hit("resolution_ran_out_of_memory");
    return Verdict::pass();
  }
  if (bit) stats().hit("fault_bit_but_success_reported");
  if (m.rc != 0) {
    VF_REQUIRE(rc == URI_ERROR_ADDBASE_REL_BASE, "%s: base without scheme but rc=%d", A::name(), rc);
    return Verdict::pass();
  }
  VF_REQUIRE(rc == 0, "%s: rc=%d, expected success", A::name(), rc);
  std::string wf = wellformed<A>(d);
  Snap g = snapshot<A>(d);
  const MUri &T = m.t;
  std::string klass = classify(MB, MR, m, g);
  auto fail = [&](const std::string &msg) { return Verdict::fail(std::string(A::name()) + ": " + msg + " [got " + g.describe() + "]", klass); };
  if (!wf.empty()) return fail("destination not well formed: " + wf);
  auto optstr = [](bool has, const std::string &s) { return has ? std::optional<std::string>(s) : std::nullopt; };
  if (g.scheme != optstr(T.hasScheme, T.scheme)) return fail("scheme differs, expected '" + T.scheme + "'");
  if (g.hasAuth() != T.hasAuth) return fail(std::string("authority ") + (T.hasAuth ? "missing" : "unexpected"));
  if (T.hasAuth) {
    if (g.user != optstr(T.hasUser, T.user)) return fail("user info differs");
    if (g.hostKind != T.hostKind) return fail("host kind differs, expected " + std::to_string(T.hostKind));
    // (operands out of a history are known to the model by their recomposed text, which spells an IPv6 literal in full:
    // there the address is compared by value only)
    if (!(T.hostKind == HK_IP6 && f.has("n")) && g.host != std::optional<std::string>(T.host)) return fail("host text differs, expected '" + T.host + "'");
    if (T.hostKind == HK_IP4 && memcmp(g.ip.data(), T.ip.data(), 4) != 0) return fail("IPv4 value differs");
    if (T.hostKind == HK_IP6 && g.ip != T.ip) return fail("IPv6 value differs");
    if (g.port != optstr(T.hasPort, T.port)) return fail("port differs");
  } else {
    if (g.user || g.port) return fail("user info/port without authority");
  }
  std::string gp = g.pathText();
  std::string expPath = T.path;
  if (m.needsGuard) {
    // exactly one '.' segment in front; rooted and rootless spellings both put "a single '.' segment in front"
    if (gp == "/." + T.path) expPath = gp;
    else if (gp == "./" + T.path) { expPath = gp; stats().relax("guard_dot_rootless_spelling"); }
    else return fail("host-less path '" + T.path + "' begins with '//': expected a single '.' segment in front, got path '" + gp + "'");
  } else if (gp != T.path) return fail("path differs: expected '" + T.path + "', got '" + gp + "'");
  if (g.query != optstr(T.hasQuery, T.query)) return fail("query differs");
  if (g.frag != optstr(T.hasFrag, T.frag)) return fail("fragment differs");
  // recomposed text
  MUri TT = T;
  TT.path = expPath;
  std::string text, want = m_recompose(TT);
  if (!to_string<A>(d, &text)) return fail("uriToString failed on the destination");
  if (text != want) return fail("recomposed text '" + text + "', expected '" + want + "'");
  return Verdict::pass();
}

static MResolved model_for(const MUri &B, const MUri &R, int *opt) {
  if (*opt && B.hasScheme && R.hasScheme && B.scheme != R.scheme && ieq(B.scheme, R.scheme)) { *opt = 0; stats().relax("schemes_differ_in_case_only:judged_with_option_off"); }
  return m_resolve(B, R, *opt != 0);
}

// reference and base taken from the objects a history leaves behind
template <class A> static Verdict check_history(const Fields &f, std::string *desc) {
  World<A> w;
  for (auto &op : ops_from_fields(f)) w.exec(op);
  std::vector<int> v = w.made_first();
  if (v.size() < 2) return Verdict::discard();
  size_t ri = (size_t)f.geti("hi") % v.size(), rj = (size_t)f.geti("hj") % v.size();
  if (ri == rj && f.geti("hi") != f.geti("hj")) rj = (rj + 1) % v.size();  // the same object twice only when asked for
  int i = v[ri], j = v[rj];
  std::string rt, bt;
  if (!w.faithful_text(i, &rt) || !w.faithful_text(j, &bt)) { stats().hit("history_operand_not_text_faithful"); return Verdict::pass(); }
  MUri B = m_split(bt), R = m_split(rt);
  int opt = (int)f.geti("opt") ? 1 : 0;
  MResolved m = model_for(B, R, &opt);
  *desc = "ref(" + w.at(i).origin + ")=" + esc(rt) + " base(" + w.at(j).origin + ")=" + esc(bt) + " opt=" + std::to_string(opt);
  Verdict r = judge<A>(f, w.at(i).uri, w.at(j).uri, B, R, m, opt);
  if (r.kind == Verdict::FAIL) r.msg += " {operands out of a history: " + *desc + "}";
  else { stats().hit("history_ref_origin=" + w.at(i).origin.substr(0, 1)); stats().hit("history_base_origin=" + w.at(j).origin.substr(0, 1)); if (i == j) stats().hit("history_same_object_as_ref_and_base"); }
  return r;
}

static Verdict check(const Fields &f) {
  if (f.has("n")) {
    for (auto &op : ops_from_fields(f)) if (op.kind == 'P' && !uriref_matcher().matches(op.text)) return Verdict::discard();
    std::string d, d2;
    Verdict v = check_history<Api<char>>(f, &d);
    if (v.kind != Verdict::PASS) return v;
    v = check_history<Api<wchar_t>>(f, &d2);
    if (v.kind != Verdict::PASS) return v;
    stats().hit("arm=operands_from_history");
    if (!d.empty()) stats().nontrivial(f.text(), d);
    return Verdict::pass();
  }
  std::string bt = f.get("base"), rt = f.get("ref");
  if (!uriref_matcher().matches(bt) || !uriref_matcher().matches(rt)) return Verdict::discard();
  MUri B = m_split(bt), R = m_split(rt);
  int opt = (int)f.geti("opt") ? 1 : 0;
  if (opt && B.hasScheme && R.hasScheme && B.scheme != R.scheme && ieq(B.scheme, R.scheme)) { opt = 0; stats().relax("schemes_differ_in_case_only:judged_with_option_off"); }
  MResolved m = m_resolve(B, R, opt != 0);
  // self-check of the segment-list dot removal against the literal 5.2.4 algorithm on rooted inputs
  if (m.rc == 0 && m.branch == 5) {
    std::string merged;
    if (B.hasAuth && B.path.empty()) merged = "/" + R.path;
    else { size_t p = B.path.rfind('/'); merged = (p == std::string::npos ? std::string() : B.path.substr(0, p + 1)) + R.path; }
    if (!merged.empty() && merged[0] == '/' && rfc_remove_dot_segments(merged) != m.t.path)
      return Verdict::fail("ORACLE: segment-list dot removal disagrees with RFC 5.2.4 on rooted '" + merged + "'");
  }
  Verdict v = check_type<Api<char>>(f, B, R, m, opt);
  if (v.kind != Verdict::PASS) return v;
  v = check_type<Api<wchar_t>>(f, B, R, m, opt);
  if (v.kind != Verdict::PASS) return v;
  Stats &S = stats();
  static const char *br[] = {"error_rel_base", "branch=R.scheme", "branch=R.authority", "branch=empty_path", "branch=absolute_path", "branch=merge"};
  S.hit(m.rc ? br[0] : br[m.branch]);
  S.hit(opt ? "opt=identical_scheme_compat" : "opt=strict");
  if (m.rc == 0) {
    S.hit(B.hasAuth ? "base=authority" : B.path.empty() ? "base=empty_path" : B.path[0] == '/' ? "base=rooted" : "base=rootless");
    if (m.needsGuard) S.hit("guard_needed");
    if (opt && R.hasScheme && R.scheme == B.scheme) S.hit("scheme_dropped_by_option");
  }
  if (m.rc == 0 && (m.branch == 4 || m.branch == 5) && m.dotsInvolved) S.nontrivial(f.text(), "base=" + esc(bt) + " ref=" + esc(rt) + " opt=" + std::to_string(opt));
  return Verdict::pass();
}

static std::string selftest() {
  // RFC 3986 section 5.4 normal and abnormal examples through the model
  static const char *ex[][2] = {
      {"g:h", "g:h"}, {"g", "http://a/b/c/g"}, {"./g", "http://a/b/c/g"}, {"g/", "http://a/b/c/g/"}, {"/g", "http://a/g"}, {"//g", "http://g"},
      {"?y", "http://a/b/c/d;p?y"}, {"g?y", "http://a/b/c/g?y"}, {"#s", "http://a/b/c/d;p?q#s"}, {"g#s", "http://a/b/c/g#s"}, {"g?y#s", "http://a/b/c/g?y#s"},
      {";x", "http://a/b/c/;x"}, {"g;x", "http://a/b/c/g;x"}, {"g;x?y#s", "http://a/b/c/g;x?y#s"}, {"", "http://a/b/c/d;p?q"}, {".", "http://a/b/c/"},
      {"./", "http://a/b/c/"}, {"..", "http://a/b/"}, {"../", "http://a/b/"}, {"../g", "http://a/b/g"}, {"../..", "http://a/"}, {"../../", "http://a/"},
      {"../../g", "http://a/g"}, {"../../../g", "http://a/g"}, {"../../../../g", "http://a/g"}, {"/./g", "http://a/g"}, {"/../g", "http://a/g"},
      {"g.", "http://a/b/c/g."}, {".g", "http://a/b/c/.g"}, {"g..", "http://a/b/c/g.."}, {"..g", "http://a/b/c/..g"}, {"./../g", "http://a/b/g"},
      {"./g/.", "http://a/b/c/g/"}, {"g/./h", "http://a/b/c/g/h"}, {"g/../h", "http://a/b/c/h"}, {"g;x=1/./y", "http://a/b/c/g;x=1/y"},
      {"g;x=1/../y", "http://a/b/c/y"}, {"g?y/./x", "http://a/b/c/g?y/./x"}, {"g?y/../x", "http://a/b/c/g?y/../x"}, {"g#s/./x", "http://a/b/c/g#s/./x"},
      {"g#s/../x", "http://a/b/c/g#s/../x"}, {"http:g", "http:g"}};
  MUri B = m_split("http://a/b/c/d;p?q");
  for (auto &e : ex) {
    MResolved r = m_resolve(B, m_split(e[0]), false);
    if (m_recompose(r.t) != e[1]) return std::string("M_resolve fails RFC 5.4 example '") + e[0] + "': " + m_recompose(r.t);
  }
  MResolved r = m_resolve(B, m_split("http:g"), true);
  if (m_recompose(r.t) != "http://a/b/c/g") return "M_resolve fails the backward-compatible 'http:g' example";
  return "";
}

// every (base, reference) pair of the bounded path domain, both option values
static Verdict enumerate(int tier, int shard, int nshards, Fields *failing) {
  static PathDomain d = path_domain(tier);
  uint64_t nb = d.bases.size(), nr = d.refs.size();
  stats().hit("enum_bases", shard == 0 ? nb : 0); stats().hit("enum_refs", shard == 0 ? nr : 0);
  return enum_drive(nb * nr * 2, shard, nshards, check, [&](uint64_t i) {
    Fields f;
    f.set("base", d.bases[(size_t)(i / 2 / nr)]); f.set("ref", d.refs[(size_t)(i / 2 % nr)]);
    f.seti("opt", (long long)(i & 1)); f.seti("api", (long long)(i % 3)); f.seti("kind", 9); f.seti("fault", 0);
    f.seti("rown", (long long)((i / 2) % 5 == 0)); f.seti("bown", (long long)((i / 2) % 7 == 0));
    return f;
  }, failing);
}

const Harness vf::HARNESS = {"C06", gen, check, enumerate, selftest};
