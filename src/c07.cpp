// C07  URIs produced by the library keep their meaning when written and read back.
// Invariant after every producing step of a generated history (parse, resolve,
// create reference, normalise with any mask, make owner): the object is well
// formed, recomposes to a valid URI reference, and parsing that text gives the
// same scheme, authority presence and parts, path TEXT, query and fragment.
#include "hist.hpp"

using namespace vf;

static Fields gen(Tape &t) {
  Fields f;
  LongMode lm(t);
  if (lm.on()) f.seti("long", 1);
  std::vector<Op> hist = g_history(t, SEG_ANY, false, 8);
  // one history in 40 starts from a text that RFC 3986 does not allow and other specifications do (zone identifiers,
  // inet_aton addresses in brackets ...): the parse fails and nothing follows - unless the parser accepts more than the
  // grammar, in which case what it returns is an object "returned by parsing" like any other
  if (t.below(40) == 39 && hist.size() >= 2) {
    static const std::vector<std::string> foreign = {"http://[fe80::1%25eth0]/a", "//[::1%25lo]", "http://[fe80::1%eth0]/x", "s://[fe80::a%251]:80/", "//[::ffff:1.2.3.4%25en0]/", "//[1::%25]", "http://[::1]%25eth0/", "//[v1.a%25b]/"};
    hist[1].text = t.pick(foreign);
  }
  ops_to_fields(f, hist);
  // in a quarter of the histories every call goes through a custom memory manager whose k-th request of *each* call
  // (parses excepted) fails once: whatever a call then still returns as a success must satisfy the invariant like any other result
  f.seti("fault", t.chance(2, 3) ? 0 : (t.chance(1, 3) ? 1 : t.range(2, 6)));
  return f;
}

struct StepInfo { std::string pathBefore; };

// classes of open known findings (see DESIGN.md 7): decided from the object itself
static std::string classify(const Snap &held, const Snap &back, char producer) {
  if (producer == 'N') {
    // normalisation of a host-less path can expose an empty first segment or a ':' first segment, or a '//' start
    std::string p = held.pathText();
    if (!held.hasAuth() && p.compare(0, 2, "//") == 0) return "F-N4";
    if (!held.hasAuth() && !held.scheme && !held.absolutePath && held.hasSegs && !held.segs.empty()) {
      if (held.segs[0].empty()) return "F-N2";
      if (held.segs[0].find(':') != std::string::npos) return "F-N3";
    }
  }
  (void)back;
  return "";
}

template <class A> static Verdict invariant(typename A::Uri &u, char producer, const std::string &opdesc) {
  using Ch = typename A::Ch;
  std::string wf = wellformed<A>(u);
  Snap held = snapshot<A>(u);
  auto fail = [&](const std::string &m, const std::string &klass = "") {
    return Verdict::fail(std::string(A::name()) + ": after " + opdesc + ": " + m + " [held " + held.describe() + "]", klass);
  };
  if (!wf.empty()) return fail("object not well formed: " + wf);
  std::string text;
  if (!to_string<A>(u, &text)) return fail("uriToString failed");
  Parsed<A> q;
  parse_via<A>(q, PE_SINGLE_EX, widen<Ch>(text));
  Snap back;
  if (q.rc == 0) back = snapshot<A>(q.uri);
  std::string klass = classify(held, back, producer);
  if (!uriref_matcher().matches(text)) return fail("recomposed text '" + esc(text) + "' is not a valid URI reference", klass);
  if (q.rc != 0) return fail("recomposed text '" + esc(text) + "' does not parse", klass);
  if (held.scheme != back.scheme) return fail("text '" + esc(text) + "' reads back with scheme " + (back.scheme ? "'" + *back.scheme + "'" : "absent"), klass);
  if (held.hasAuth() != back.hasAuth()) return fail("text '" + esc(text) + "' reads back " + (back.hasAuth() ? "with" : "without") + " an authority", klass);
  if (held.hasAuth()) {
    if (held.user != back.user) return fail("user info reads back differently", klass);
    if (held.hostKind != back.hostKind) return fail("host kind reads back differently", klass);
    if (held.hostKind == HK_IP4 && memcmp(held.ip.data(), back.ip.data(), 4) != 0) return fail("IPv4 value reads back differently", klass);
    // an IPv4 host has one spelling (four dec-octets): the text held must be the text written (only IPv6 literals are re-spelled)
    if (held.hostKind == HK_IP4 && held.host != back.host) return fail("IPv4 host text '" + (held.host ? *held.host : std::string("-")) + "' reads back as '" + (back.host ? *back.host : std::string("-")) + "'", klass);
    if (held.hostKind == HK_IP6 && held.ip != back.ip) return fail("IPv6 value reads back differently", klass);
    if (held.hostKind == HK_IP6) {
      // the literal is re-spelled when written, so it is compared by value; the text the object holds must denote that value too
      std::string lit = "//[" + (held.host ? *held.host : std::string()) + "]";
      if (!uriref_matcher().matches(lit)) return fail("the IPv6 host text held, '" + (held.host ? *held.host : std::string("-")) + "', is not an IPv6 address", klass);
      MUri hm = m_split(lit);
      if (hm.hostKind != HK_IP6 || hm.ip != held.ip) return fail("the IPv6 host text held, '" + *held.host + "', does not denote the address held", klass);
    }
    if ((held.hostKind == HK_REG || held.hostKind == HK_FUT) && held.host != back.host) return fail("host text reads back differently", klass);
    if (held.port != back.port) return fail("port reads back differently", klass);
  }
  if (held.pathText() != back.pathText()) return fail("path '" + held.pathText() + "' reads back as '" + back.pathText() + "'", klass);
  if (held.query != back.query) return fail("query reads back differently", klass);
  if (held.frag != back.frag) return fail("fragment reads back differently", klass);
  return Verdict::pass();
}

template <class A> static Verdict run(const std::vector<Op> &ops, int fault, int *nonparse, bool *pathChanged, std::vector<std::string> *bigrams, int *bitten) {
  LedgerMM mm;  // declared before the world: the world releases its objects through it
  World<A> w;
  if (fault > 0) w.defaultMm = &mm.mm;
  char prev = 0;
  for (auto &op : ops) {
    // the plan applies to the producing steps, not to the parses that set the scene (a failed parse ends the history early)
    if (fault > 0) { mm.reset_counts(); mm.reset_plan(); if (op.kind != 'P') mm.fail_at = (uint64_t)fault; }
    std::string before;
    int n = w.size();
    int tgt = n ? ((op.i % n) + n) % n : 0;
    if ((op.kind == 'N' || op.kind == 'O') && n && w.at(tgt).valid) before = snapshot<A>(w.at(tgt).uri).pathText();
    typename World<A>::Res r = w.exec(op);
    if (fault > 0) { if (mm.failed && !r.skipped) (*bitten)++; mm.reset_plan(); }
    stats().sub_evaluations++;
    if (r.skipped) continue;
    if (op.kind != 'P') {
      (*nonparse)++;
      if (prev) bigrams->push_back(std::string(1, prev) + "->" + std::string(1, op.kind));
      prev = op.kind;
    }
    if (r.produced < 0) continue;
    Verdict v = invariant<A>(w.at(r.produced).uri, op.kind, op.str() + (fault > 0 ? " (allocation " + std::to_string(fault) + " of each call fails once)" : ""));
    if (v.kind != Verdict::PASS) return v;
    if (op.kind == 'N' && snapshot<A>(w.at(r.produced).uri).pathText() != before) *pathChanged = true;
    if (op.kind == 'R' || op.kind == 'B') *pathChanged = true;
  }
  return Verdict::pass();
}

static Verdict check(const Fields &f) {
  std::vector<Op> ops = ops_from_fields(f);
  // (parse steps with texts outside the grammar are not discarded: such a parse fails and the steps that depend on it are skipped)
  int np = 0; bool pc = false; std::vector<std::string> bg;
  int fault = (int)f.geti("fault"), bitten = 0;
  Verdict v = run<Api<char>>(ops, fault, &np, &pc, &bg, &bitten);
  if (v.kind != Verdict::PASS) return v;
  int np2 = 0; bool pc2 = false; std::vector<std::string> bg2;
  v = run<Api<wchar_t>>(ops, fault, &np2, &pc2, &bg2, &bitten);
  if (v.kind != Verdict::PASS) return v;
  stats().hit("fault=" + std::to_string(fault));
  if (fault > 0) { stats().hit("histories_with_fault_plan"); if (bitten) stats().hit("histories_where_a_fault_bit"); }
  for (auto &b : bg) stats().hit("bigram " + b);
  stats().hit("histories");
  if (np >= 2 && pc) { std::string k = f.text(); std::string s; for (auto &op : ops) s += op.str() + " ; "; stats().nontrivial(k, s); }
  return Verdict::pass();
}

const Harness vf::HARNESS = {"C07", gen, check, nullptr, nullptr};
