// C03  Parsing stays inside the given range and leaves no residue on failure.
// (a) exact-size heap copies (ASan red zones) and guard-page placements flush
//     against PROT_NONE pages on either side; input mapped read-only during the call;
// (b) outcome identical for every trailing content and for every split point of a
//     longer text parsed in place;
// (c) on syntax failure and on injected allocation failure at every position: zero
//     blocks outstanding at return, free-members callable 1..3 times without harm.
#include <sys/mman.h>
#include <climits>
#include "gen.hpp"
#include "parse_common.hpp"

using namespace vf;

static Fields gen(Tape &t) {
  Fields f;
  int arm;
  u32s n = g_noise(t, false, &arm);
  std::string s;
  for (char32_t c : n) s += (char)(unsigned char)(c & 0xff);
  f.set("text", s);
  f.seti("tailsel", t.below(1u << 16));
  return f;
}

template <class A> struct Outcome {
  int rc = 0;
  long errOff = -1;
  std::string comp;  // components with offsets
  bool operator==(const Outcome &o) const { return rc == o.rc && errOff == o.errOff && comp == o.comp; }
};

template <class A>
static Outcome<A> outcome_of(int rc, const typename A::Uri &u, const typename A::Ch *base, const typename A::Ch *end,
                             const typename A::Ch *errPos, std::string *rangeErr) {
  using Ch = typename A::Ch;
  Outcome<A> o;
  o.rc = rc;
  if (rc != 0) { o.errOff = errPos ? (long)(errPos - base) : -1; return o; }
  Snap s = snapshot<A>(u);
  o.comp = s.describe();
  auto off = [&](const typename A::Range &r, const char *n) {
    if (r.first && r.afterLast > r.first) {
      if (r.first < base || r.afterLast > end) *rangeErr = std::string(n) + " range lies outside the input";
      o.comp += " " + std::string(n) + "@" + std::to_string(r.first - base);
    }
  };
  off(u.scheme, "scheme"); off(u.userInfo, "user"); off(u.hostText, "host"); off(u.hostData.ipFuture, "fut"); off(u.portText, "port");
  off(u.query, "query"); off(u.fragment, "frag");
  for (auto *w = u.pathHead; w; w = w->next) off(w->text, "seg");
  (void)sizeof(Ch);
  return o;
}

static GuardBuf &gb() { static GuardBuf g(8); return g; }

// entry: 0 = uriParseSingleUriExMm, 1 = state-based uriParseUriEx (default manager only; no wrapper that cleans up behind it)
template <class A>
static Outcome<A> parse_range(const typename A::Ch *first, const typename A::Ch *afterLast, LedgerMM *mm, std::string *err, int entry = 0) {
  using Ch = typename A::Ch;
  typename A::Uri u;
  memset(&u, 0xA5, sizeof u);
  const Ch *ep = nullptr;
  int rc;
  long libcBefore = libc_ledger().outstanding;
  if (entry == 0) rc = A::ParseSingleUriExMm(&u, first, afterLast, &ep, mm ? &mm->mm : nullptr);
  else if (entry == 2) { mm = nullptr; rc = A::ParseSingleUriEx(&u, first, afterLast, &ep); }  // the wrapper without manager argument has code of its own
  else {
    typename A::State st;
    memset(&st, 0xA5, sizeof st);
    st.uri = &u;
    mm = nullptr;
    rc = A::ParseUriEx(&st, first, afterLast);
    ep = st.errorPos;
    if (rc != st.errorCode) *err = "state-based parse: return value and state.errorCode differ";
  }
  Outcome<A> o = outcome_of<A>(rc, u, first, afterLast, ep, err);
  if (rc != 0 && mm && mm->outstanding() != 0) *err = std::string(entry ? "uriParseUriExMm" : "uriParseSingleUriExMm") + ": blocks outstanding right after a failing parse";
  if (rc != 0 && !mm && libc_ledger().outstanding != libcBefore) *err = std::string(entry ? "uriParseUriEx" : "uriParseSingleUriEx") + ": default-manager blocks outstanding right after a failing parse";
  int times = 1 + (int)((afterLast - first) % 3);
  for (int i = 0; i < times; i++) {
    if (mm) A::FreeUriMembersMm(&u, &mm->mm); else A::FreeUriMembers(&u);
  }
  if (mm && mm->outstanding() != 0) *err = "blocks outstanding after uriFreeUriMembers";
  if (mm && mm->bad_free) *err = mm->bad_free_what;
  return o;
}

template <class A> static Verdict check_type(const std::string &text, unsigned tailsel, bool *nontrivial) {
  using Ch = typename A::Ch;
  using Str = std::basic_string<Ch>;
  Str T = widen<Ch>(text);
  size_t n = T.size();
  std::string err;
  LedgerMM mm;
  libc_ledger().track = true;

  // reference outcome per split point: private exact-size heap copy of the prefix
  std::vector<Outcome<A>> ref(n + 1);
  for (size_t i = 0; i <= n; i++) {
    std::unique_ptr<Ch[]> c(new Ch[i]);
    if (i) memcpy(c.get(), T.data(), i * sizeof(Ch));
    ref[i] = parse_range<A>(c.get(), c.get() + i, &mm, &err);
    stats().sub_evaluations++;
    VF_REQUIRE(err.empty(), "%s: prefix %zu: %s", A::name(), i, err.c_str());
  }
  // every split point parsed in place inside the longer text (exact-size block of the whole text)
  {
    std::unique_ptr<Ch[]> whole(new Ch[n]);
    if (n) memcpy(whole.get(), T.data(), n * sizeof(Ch));
    for (size_t i = 0; i <= n; i++) {
      long before = libc_ledger().outstanding;
      Outcome<A> o = parse_range<A>(whole.get(), whole.get() + i, (i & 1) ? &mm : nullptr, &err, (int)((i >> 1) & 1));
      Outcome<A> o2 = parse_range<A>(whole.get(), whole.get() + i, (i & 1) ? nullptr : &mm, &err, (int)(((i >> 1) & 1) ^ 1));
      VF_REQUIRE(o2 == o, "%s: split %zu: entry points disagree", A::name(), i);
      stats().sub_evaluations++;
      stats().sub_evaluations++;
      VF_REQUIRE(err.empty(), "%s: split %zu: %s", A::name(), i, err.c_str());
      VF_REQUIRE(libc_ledger().outstanding == before, "%s: split %zu: default manager left %ld blocks", A::name(), i, libc_ledger().outstanding - before);
      VF_REQUIRE(o == ref[i], "%s: split %zu of '%s': outcome depends on what follows the range (rc %d/%d, err %ld/%ld, %s | %s)", A::name(), i,
                 esc(text).c_str(), o.rc, ref[i].rc, o.errOff, ref[i].errOff, o.comp.c_str(), ref[i].comp.c_str());
    }
    VF_REQUIRE(n == 0 || memcmp(whole.get(), T.data(), n * sizeof(Ch)) == 0, "%s: input text was modified", A::name());
  }
  // adversarial tails after the full range and after up to 4 token-interior split points
  static const char *tails[] = {"]", ":", ".", "1", "f", "%41", "/", "@", "41", "::1]", "25", "G", "#", "?"};
  std::vector<size_t> cuts = {n};
  for (size_t i = 1; i < n && cuts.size() < 5; i++) {
    char p = text[i - 1];
    if (p == '%' || p == '[' || p == ':' || p == '.' || (i >= 2 && text[i - 2] == '%')) cuts.push_back(i);
  }
  for (size_t ci = 0; ci < cuts.size(); ci++) {
    size_t i = cuts[ci];
    for (int k = 0; k < 3; k++) {
      const char *tail = tails[(tailsel + 5 * ci + 3 * k) % (sizeof tails / sizeof *tails)];
      size_t tl = strlen(tail);
      std::unique_ptr<Ch[]> big(new Ch[i + tl]);
      if (i) memcpy(big.get(), T.data(), i * sizeof(Ch));
      for (size_t j = 0; j < tl; j++) big[i + j] = (Ch)(unsigned char)tail[j];
      Outcome<A> o = parse_range<A>(big.get(), big.get() + i, (k & 1) ? nullptr : &mm, &err, k == 2 ? 1 : (int)(ci & 1));
      stats().sub_evaluations++;
      VF_REQUIRE(err.empty(), "%s: tail '%s' at %zu: %s", A::name(), tail, i, err.c_str());
      VF_REQUIRE(o == ref[i], "%s: range [0,%zu) of '%s' followed by '%s': outcome differs from the private copy (rc %d/%d, err %ld/%ld)", A::name(), i,
                 esc(text).c_str(), tail, o.rc, ref[i].rc, o.errOff, ref[i].errOff);
    }
  }
  // guard pages: flush right, flush left, read-only while parsing; the empty range at the start of the text takes part
  // in every case (nothing in front of `first` may be looked at either)
  std::vector<size_t> gcuts = cuts;
  if (n != 0) gcuts.push_back(0);
  for (size_t ci = 0; ci < gcuts.size(); ci++) {
    size_t i = gcuts[ci];
    Ch *r = gb().template right_chars<Ch>(i);
    if (i) memcpy(r, T.data(), i * sizeof(Ch));
    Ch *l = (Ch *)gb().left();
    bool doLeft = (i * sizeof(Ch)) * 2 + 64 < gb().capacity();
    if (doLeft && i) memcpy(l, T.data(), i * sizeof(Ch));
    gb().readonly(true);
    Outcome<A> o = parse_range<A>(r, r + i, &mm, &err);
    Outcome<A> o2 = doLeft ? parse_range<A>(l, l + i, &mm, &err) : o;
    Outcome<A> o3 = parse_range<A>(r, r + i, nullptr, &err, 2);
    Outcome<A> o4 = doLeft ? parse_range<A>(l, l + i, nullptr, &err, 2) : o;
    if (err.empty() && !(o3 == o && o4 == o)) err = "uriParseSingleUriEx and uriParseSingleUriExMm disagree";
    gb().readonly(false);
    stats().sub_evaluations += 4;
    VF_REQUIRE(err.empty(), "%s: guarded %zu: %s", A::name(), i, err.c_str());
    VF_REQUIRE(o == ref[i] && o2 == ref[i], "%s: guard-page placement changes the outcome at %zu", A::name(), i);
  }
  // allocation failure at every position of the Mm entry point (full text and the cuts)
  for (size_t ci = 0; ci < cuts.size(); ci++) {
    size_t i = cuts[ci];
    std::unique_ptr<Ch[]> c(new Ch[i]);
    if (i) memcpy(c.get(), T.data(), i * sizeof(Ch));
    mm.reset_counts();
    parse_range<A>(c.get(), c.get() + i, &mm, &err);
    uint64_t reqs = mm.requests;
    for (uint64_t k = 1; k <= reqs && k <= 40; k++) {
      for (int mode = 0; mode < 4; mode++) {  // fail once / from k on, through the single-call and the state-based entry
        mm.reset_counts(); mm.reset_plan();
        if ((mode & 1) == 0) mm.fail_at = k; else mm.fail_from = k;
        typename A::Uri u;
        memset(&u, 0xA5, sizeof u);
        const Ch *ep = nullptr;
        int rc;
        if (mode < 2) rc = A::ParseSingleUriExMm(&u, c.get(), c.get() + i, &ep, &mm.mm);
        else {
          // state-based entry: default manager, faults injected into the redirected libc allocator
          mm.reset_plan();
          LibcLedger &L = libc_ledger();
          long before = L.outstanding;
          L.req = 0; L.fail_at = (mode & 1) == 0 ? k : 0; L.fail_from = (mode & 1) ? k : 0;
          typename A::State st;
          memset(&st, 0xA5, sizeof st);
          st.uri = &u;
          rc = A::ParseUriEx(&st, c.get(), c.get() + i);
          bool bitL = L.req >= k;
          L.fail_at = L.fail_from = 0;
          stats().sub_evaluations++;
          if (bitL) {
            VF_REQUIRE(rc == URI_ERROR_MALLOC && st.errorCode == URI_ERROR_MALLOC, "%s: uriParseUriEx: allocation %llu failed but rc=%d", A::name(), (unsigned long long)k, rc);
            VF_REQUIRE(L.outstanding == before, "%s: uriParseUriEx: %ld default-manager blocks outstanding after running out of memory (k=%llu)", A::name(), L.outstanding - before, (unsigned long long)k);
          } else VF_REQUIRE(rc == ref[i].rc, "%s: uriParseUriEx: fault plan did not bite but rc=%d differs from %d", A::name(), rc, ref[i].rc);
          for (int z = 0; z < 1 + (int)(k % 3); z++) A::FreeUriMembers(&u);
          VF_REQUIRE(L.outstanding == before && L.foreign_free == 0, "%s: uriParseUriEx: default-manager ledger unbalanced after cleanup (k=%llu)", A::name(), (unsigned long long)k);
          continue;
        }
        stats().sub_evaluations++;
        bool bit = mm.failed > 0;
        mm.reset_plan();
        if (bit) {
          VF_REQUIRE(rc == URI_ERROR_MALLOC,
                     "%s: allocation %llu failed but rc=%d", A::name(), (unsigned long long)k, rc);
          VF_REQUIRE(mm.outstanding() == 0, "%s: %zu blocks outstanding after a parse that ran out of memory (k=%llu)", A::name(), mm.outstanding(),
                     (unsigned long long)k);
          if (k >= 2) *nontrivial = true;
        } else {
          VF_REQUIRE(rc == ref[i].rc, "%s: fault plan did not bite but rc=%d differs from %d", A::name(), rc, ref[i].rc);
        }
        for (int z = 0; z < 1 + (int)(k % 3); z++) A::FreeUriMembersMm(&u, &mm.mm);
        VF_REQUIRE(mm.outstanding() == 0 && mm.bad_free == 0, "%s: ledger unbalanced after cleanup (k=%llu): %s", A::name(), (unsigned long long)k,
                   mm.bad_free_what.c_str());
      }
    }
  }
  // non-triviality: rejected or truncated inside a multi-character token
  if (ref[n].rc != 0 && ref[n].errOff >= 1) *nontrivial = true;
  if (cuts.size() > 1) *nontrivial = true;
  return Verdict::pass();
}

static Verdict check(const Fields &f) {
  std::string text = f.get("text");
  if (text.size() > 300) return Verdict::discard();
  bool nt = false;
  unsigned ts = (unsigned)f.geti("tailsel");
  Verdict v = check_type<Api<char>>(text, ts, &nt);
  if (v.kind != Verdict::PASS) return v;
  v = check_type<Api<wchar_t>>(text, ts, &nt);
  if (v.kind != Verdict::PASS) return v;
  Matcher::Res r = uriref_matcher().run(text);
  stats().hit(r.accepted ? "accepted" : (r.L == text.size() ? "rejected_incomplete" : "rejected_midstring"));
  stats().hit("split_points", text.size() + 1);
  if (nt) stats().nontrivial(text, esc(text));
  return Verdict::pass();
}

// Ranges longer than INT_MAX characters (a dimension no generated string reaches): a read-only, never-touched mapping
// of zero pages; the very first character (NUL) is a syntax error, so a correct parser reads one character, reports
// the error at `first`, leaves nothing allocated and an output structure that can be released.
template <class A> static Verdict huge_range(size_t extra, int entry) {
  using Ch = typename A::Ch;
  size_t chars = (size_t)INT_MAX + extra;
  size_t bytes = chars * sizeof(Ch);
  void *m = mmap(nullptr, bytes, PROT_READ, MAP_PRIVATE | MAP_ANONYMOUS | MAP_NORESERVE, -1, 0);
  if (m == MAP_FAILED) { stats().relax("huge_range_mapping_unavailable"); return Verdict::pass(); }
  const Ch *first = (const Ch *)m;
  std::string err;
  LedgerMM mm;
  Outcome<A> o = parse_range<A>(first, first + chars, entry == 0 ? &mm : nullptr, &err, entry);
  munmap(m, bytes);
  VF_REQUIRE(err.empty(), "%s: range of INT_MAX+%zu characters: %s", A::name(), extra, err.c_str());
  VF_REQUIRE(o.rc == URI_ERROR_SYNTAX && o.errOff == 0, "%s: range of INT_MAX+%zu characters starting with NUL: rc=%d error offset %ld (expected a syntax error at offset 0)", A::name(), extra, o.rc, o.errOff);
  return Verdict::pass();
}
static Verdict enumerate(int tier, int shard, int nshards, Fields *failing) {
  (void)tier; (void)nshards;
  if (shard != 0) return Verdict::pass();
  for (size_t extra : {(size_t)1, (size_t)4096, (size_t)INT_MAX})
    for (int entry = 0; entry < 2; entry++) {
      { Fields c; c.seti("huge_range_extra", (long long)extra); c.seti("entry", entry); note_case(c); }
      Verdict v = huge_range<Api<char>>(extra, entry);
      if (v.kind == Verdict::PASS) v = huge_range<Api<wchar_t>>(extra, entry);
      stats().evaluations++;
      if (v.kind == Verdict::FAIL) { failing->seti("huge_range_extra", (long long)extra); failing->seti("entry", entry); return v; }
      stats().nontrivial("huge" + std::to_string(extra) + "/" + std::to_string(entry), "range of INT_MAX+" + std::to_string(extra) + " characters, entry " + std::to_string(entry));
    }
  return Verdict::pass();
}
static Verdict check_dispatch(const Fields &f) {
  if (f.has("huge_range_extra")) {
    Verdict v = huge_range<Api<char>>((size_t)f.geti("huge_range_extra"), (int)f.geti("entry"));
    return v.kind == Verdict::PASS ? huge_range<Api<wchar_t>>((size_t)f.geti("huge_range_extra"), (int)f.geti("entry")) : v;
  }
  return check(f);
}

const Harness vf::HARNESS = {"C03", gen, check_dispatch, enumerate, nullptr};
