// C13  All memory goes through the supplied manager and is fully returned.
// Histories over all functions that take a manager, each object bound to manager
// A, B, a completed malloc/free-only manager, or NULL (libc). Oracle: recording
// managers (exact-pointer frees, zero outstanding after the matching release,
// repeated free-members harmless), the redirected libc references of the library
// (vf_* counters must not move under a custom manager), and all 31 incomplete
// managers x all nine ...Mm entry points.
#include "hist.hpp"

using namespace vf;

static Fields gen(Tape &t) {
  Fields f;
  std::vector<Op> ops = g_history(t, SEG_ANY, false, 8);
  // sprinkle query operations
  int nq = t.range(0, 2);
  for (int i = 0; i < nq; i++) {
    Op q; q.kind = 'Q';
    static const std::vector<std::string> qs = {"a=b&c=d", "k", "", "a=1&b&c=%41+x", "=", "&&", "x=%0D%0A"};
    q.text = t.pick(qs);
    ops.insert(ops.begin() + t.below((uint32_t)ops.size() + 1), q);
  }
  ops_to_fields(f, ops);
  for (size_t k = 0; k < ops.size(); k++) f.seti("mm." + std::to_string(k), t.below(4));
  // allocation failures: for a quarter of the ops the j-th request of that call fails once (whichever manager serves it)
  for (size_t k = 0; k < ops.size(); k++) f.seti("fault." + std::to_string(k), t.chance(3, 4) ? 0 : t.range(1, 6));
  f.seti("backendextras", t.chance(2, 3) ? 0 : 1 + (int)t.below(7));
  return f;
}

struct Managers {
  LedgerMM A, B, backend;
  UriMemoryManager completed;
  explicit Managers(int extras = 0) {
    A.tag = "A"; B.tag = "B";
    // the backend of the completed manager may offer more than malloc and free; the completion must not depend on that
    if (!(extras & 1)) backend.mm.calloc = nullptr;
    if (!(extras & 2)) backend.mm.realloc = nullptr;
    if (!(extras & 4)) backend.mm.reallocarray = nullptr;
    uriCompleteMemoryManager(&completed, &backend.mm);
  }
  UriMemoryManager *pick(int sel) { return sel == 1 ? &A.mm : sel == 2 ? &B.mm : sel == 3 ? &completed : nullptr; }
  std::string problems() {
    for (LedgerMM *m : {&A, &B, &backend}) if (m->bad_free) return std::string("manager ") + m->tag + ": " + m->bad_free_what;
    return "";
  }
};

template <class A> static Verdict run(const Fields &f, int *allocCalls, int *objsUsed) {
  using Ch = typename A::Ch;
  std::vector<Op> ops = ops_from_fields(f);
  Managers M((int)f.geti("backendextras"));
  M.backend.tag = "completed-backend";
  LibcLedger &L = libc_ledger();
  L.track = true;
  long baseOutstanding = L.outstanding;
  uint64_t baseForeign = L.foreign_free;
  {
    World<A> w;
    for (size_t k = 0; k < ops.size(); k++) {
      const Op &op = ops[k];
      int sel = (int)f.geti("mm." + std::to_string(k));
      UriMemoryManager *m = M.pick(sel);
      w.defaultMm = m;
      // which manager does this call use? in-place ops use the object's own
      UriMemoryManager *used = m;
      if ((op.kind == 'N' || op.kind == 'O' || op.kind == 'D') && w.size()) used = w.at(((op.i % w.size()) + w.size()) % w.size()).mm;
      int fault = (int)f.geti("fault." + std::to_string(k));
      for (LedgerMM *lm : {&M.A, &M.B, &M.backend}) { lm->reset_plan(); if (fault > 0) { lm->requests = 0; lm->fail_at = (uint64_t)fault; } }
      L.fail_at = 0;
      if (fault > 0) { L.req = 0; L.fail_at = (uint64_t)fault; }
      struct PlanOff { Managers &M; LibcLedger &L; void off() { M.A.reset_plan(); M.B.reset_plan(); M.backend.reset_plan(); L.fail_at = 0; } ~PlanOff() { off(); } } planOff{M, L};
      uint64_t libcBefore = L.calls;
      uint64_t reqBefore = M.A.requests + M.B.requests + M.backend.requests;
      if (op.kind == 'Q') {
        std::basic_string<Ch> q = widen<Ch>(op.text);
        typename A::QL *ql = nullptr;
        int cnt = 0;
        int rc = A::DissectQueryMallocExMm(&ql, &cnt, q.data(), q.data() + q.size(), URI_TRUE, URI_BR_DONT_TOUCH, m);
        VF_REQUIRE(rc == 0 || (fault > 0 && rc == URI_ERROR_MALLOC), "%s: dissect rc=%d", A::name(), rc);
        if (rc != 0) ql = nullptr;  // documented: nothing to release after a failure
        if (ql) stats().hit("query_steps_with_items"); else stats().hit(rc ? "query_steps_dissect_failed" : "query_steps_without_items");
        if (ql) {
          Ch *s = nullptr;
          rc = A::ComposeQueryMallocExMm(&s, ql, URI_TRUE, URI_TRUE, m);
          VF_REQUIRE((rc == 0 && s) || (fault > 0 && rc == URI_ERROR_MALLOC), "%s: compose rc=%d", A::name(), rc);
          if (rc == 0) { if (m) m->free(m, s); else { free(s); L.outstanding--; L.live.erase(s); } }
        }
        planOff.off();
        VF_REQUIRE(A::FreeQueryListMm(ql, m) == 0, "%s: uriFreeQueryListMm failed", A::name());
      } else {
        typename World<A>::Res r = w.exec(op);
        if (r.skipped) continue;
      }
      stats().sub_evaluations++;
      if (used != nullptr) {
        VF_REQUIRE(L.calls == libcBefore, "%s: op %zu (%s) was given a custom manager but the library called the C allocator %llu time(s)", A::name(), k, op.str().c_str(),
                   (unsigned long long)(L.calls - libcBefore));
      } else {
        VF_REQUIRE(M.A.requests + M.B.requests + M.backend.requests == reqBefore, "%s: op %zu (%s) was given no manager but a custom manager was used", A::name(), k, op.str().c_str());
      }
      std::string p = M.problems();
      VF_REQUIRE(p.empty(), "%s: after op %zu (%s): %s", A::name(), k, op.str().c_str(), p.c_str());
      VF_REQUIRE(L.foreign_free == baseForeign, "%s: after op %zu (%s): the C allocator was handed a pointer it did not allocate", A::name(), k, op.str().c_str());
      (*allocCalls)++;
    }
    *objsUsed = w.size();
    w.release_all();
    // freeing URI members repeatedly is harmless
    for (int rep = 0; rep < 2; rep++)
      for (int k = 0; k < w.size(); k++) VF_REQUIRE(A::FreeUriMembersMm(&w.at(k).uri, w.at(k).mm) == 0, "%s: repeated uriFreeUriMembersMm failed", A::name());
  }
  std::string p = M.problems();
  VF_REQUIRE(p.empty(), "%s: after release: %s", A::name(), p.c_str());
  VF_REQUIRE(M.A.outstanding() == 0, "%s: manager A has %zu block(s) outstanding after everything was released", A::name(), M.A.outstanding());
  VF_REQUIRE(M.B.outstanding() == 0, "%s: manager B has %zu block(s) outstanding after everything was released", A::name(), M.B.outstanding());
  VF_REQUIRE(M.backend.outstanding() == 0, "%s: the completed manager's backend has %zu block(s) outstanding", A::name(), M.backend.outstanding());
  VF_REQUIRE(L.outstanding == baseOutstanding, "%s: the C allocator has %ld block(s) outstanding after everything was released", A::name(), L.outstanding - baseOutstanding);
  VF_REQUIRE(L.foreign_free == baseForeign, "%s: the C allocator was handed a foreign pointer", A::name());
  return Verdict::pass();
}

static Verdict check(const Fields &f) {
  for (auto &op : ops_from_fields(f)) if (op.kind == 'P' && !uriref_matcher().matches(op.text)) return Verdict::discard();
  int calls = 0, objs = 0;
  Verdict v = run<Api<char>>(f, &calls, &objs);
  if (v.kind != Verdict::PASS) return v;
  int c2 = 0, o2 = 0;
  v = run<Api<wchar_t>>(f, &c2, &o2);
  if (v.kind != Verdict::PASS) return v;
  stats().hit("histories");
  if (calls >= 3 && objs >= 2) stats().nontrivial(f.text(), f.text().substr(0, 500));
  return Verdict::pass();
}

// ---- all 31 incomplete managers x all nine ...Mm entry points --------------------------------
// state: 0 = operands freshly parsed, 1 = made owner first, 2 = partially normalised first (owner through normalisation)
template <class A> static Verdict incomplete_one(unsigned present, int state = 0) {
  using Ch = typename A::Ch;
  LedgerMM L;
  UriMemoryManager m = L.mm;
  if (!(present & 1)) m.malloc = nullptr;
  if (!(present & 2)) m.calloc = nullptr;
  if (!(present & 4)) m.realloc = nullptr;
  if (!(present & 8)) m.reallocarray = nullptr;
  if (!(present & 16)) m.free = nullptr;
  const int WANT = URI_ERROR_MEMORY_MANAGER_INCOMPLETE;
  std::basic_string<Ch> t1 = widen<Ch>("http://u@h:1/a/./b?q#f"), t2 = widen<Ch>("http://h/x/y"), q = widen<Ch>("a=b&c");
  typename A::Uri a, b, d;
  const Ch *ep;
  VF_REQUIRE(A::ParseSingleUriEx(&a, t1.data(), t1.data() + t1.size(), &ep) == 0 && A::ParseSingleUriEx(&b, t2.data(), t2.data() + t2.size(), &ep) == 0, "setup parse failed");
  struct Cl { typename A::Uri *a, *b; ~Cl() { A::FreeUriMembers(a); A::FreeUriMembers(b); } } cl{&a, &b};
  if (state == 1) VF_REQUIRE(A::MakeOwner(&a) == 0 && A::MakeOwner(&b) == 0, "setup make-owner failed");
  if (state == 2) VF_REQUIRE(A::NormalizeSyntaxEx(&a, URI_NORMALIZE_SCHEME) == 0 && A::NormalizeSyntaxEx(&b, URI_NORMALIZE_PATH) == 0, "setup normalise failed");
  std::string fa = freeze<A>(a);
  int rc;
  memset(&d, 0, sizeof d);
  {
    // the very same manager object is used once while it is still complete, and loses its members afterwards in place
    UriMemoryManager whole = L.mm;
    UriMemoryManager lost = m;
    m = whole;
    typename A::Uri first;
    const Ch *ep0;
    std::basic_string<Ch> t0 = widen<Ch>("s://h/p");
    VF_REQUIRE(A::ParseSingleUriExMm(&first, t0.data(), t0.data() + t0.size(), &ep0, &m) == 0, "setup: parse with the still complete manager failed");
    VF_REQUIRE(A::FreeUriMembersMm(&first, &m) == 0, "setup: free with the still complete manager failed");
    m = lost;
    L.reset_counts();
  }
  rc = A::ParseSingleUriExMm(&d, t1.data(), t1.data() + t1.size(), &ep, &m);
  VF_REQUIRE(rc == WANT, "%s: parse with incomplete manager %u: rc=%d", A::name(), present, rc);
  rc = A::AddBaseUriExMm(&d, &a, &b, URI_RESOLVE_STRICTLY, &m);
  VF_REQUIRE(rc == WANT, "%s: resolve with incomplete manager %u: rc=%d", A::name(), present, rc);
  rc = A::RemoveBaseUriMm(&d, &a, &b, URI_FALSE, &m);
  VF_REQUIRE(rc == WANT, "%s: create-reference with incomplete manager %u: rc=%d", A::name(), present, rc);
  rc = A::NormalizeSyntaxExMm(&a, 63, &m);
  VF_REQUIRE(rc == WANT, "%s: normalise with incomplete manager %u: rc=%d", A::name(), present, rc);
  rc = A::MakeOwnerMm(&a, &m);
  VF_REQUIRE(rc == WANT, "%s: make-owner with incomplete manager %u: rc=%d", A::name(), present, rc);
  rc = A::FreeUriMembersMm(&a, &m);
  VF_REQUIRE(rc == WANT, "%s: free-members with incomplete manager %u: rc=%d", A::name(), present, rc);
  VF_REQUIRE(freeze<A>(a) == fa, "%s: a call rejected for an incomplete manager still modified the URI", A::name());
  typename A::QL *ql = nullptr;
  int cnt;
  rc = A::DissectQueryMallocExMm(&ql, &cnt, q.data(), q.data() + q.size(), URI_TRUE, URI_BR_DONT_TOUCH, &m);
  VF_REQUIRE(rc == WANT, "%s: dissect with incomplete manager %u: rc=%d", A::name(), present, rc);
  typename A::QL node; std::basic_string<Ch> k = widen<Ch>("k"); node.key = k.c_str(); node.value = nullptr; node.next = nullptr;
  Ch *s = nullptr;
  rc = A::ComposeQueryMallocExMm(&s, &node, URI_TRUE, URI_TRUE, &m);
  VF_REQUIRE(rc == WANT, "%s: compose with incomplete manager %u: rc=%d", A::name(), present, rc);
  rc = A::FreeQueryListMm(nullptr, &m);
  VF_REQUIRE(rc == WANT, "%s: free-query-list with incomplete manager %u: rc=%d", A::name(), present, rc);
  rc = uriTestMemoryManager(&m);
  VF_REQUIRE(rc == WANT, "uriTestMemoryManager on incomplete manager %u: rc=%d", present, rc);
  VF_REQUIRE(L.requests == 0 && L.frees == 0 && L.bad_free == 0, "%s: incomplete manager %u was used (%llu requests)", A::name(), present, (unsigned long long)L.requests);
  // the library's own self-test of a manager: a complete recording manager passes it and ends with an empty ledger
  {
    LedgerMM whole;
    VF_REQUIRE(uriTestMemoryManager(&whole.mm) == 0, "uriTestMemoryManager rejects a complete manager");
    VF_REQUIRE(whole.outstanding() == 0 && whole.bad_free == 0, "uriTestMemoryManager left the manager's ledger unbalanced (%zu outstanding) %s", whole.outstanding(), whole.bad_free_what.c_str());
  }
  // uriCompleteMemoryManager itself needs malloc and free only
  UriMemoryManager out;
  rc = uriCompleteMemoryManager(&out, &m);
  bool ok = (present & 1) && (present & 16);
  VF_REQUIRE(rc == (ok ? 0 : WANT), "uriCompleteMemoryManager on manager %u: rc=%d", present, rc);
  return Verdict::pass();
}
static Verdict enumerate(int tier, int shard, int nshards, Fields *failing) {
  (void)tier;
  for (unsigned present = 0; present < 31; present++) {
    if ((int)(present % (unsigned)nshards) != shard) continue;
    { Fields c; c.seti("incomplete", present); note_case(c); }
    Verdict v = Verdict::pass();
    for (int state = 0; state < 3 && v.kind == Verdict::PASS; state++) {
      v = incomplete_one<Api<char>>(present, state);
      if (v.kind == Verdict::PASS) v = incomplete_one<Api<wchar_t>>(present, state);
    }
    stats().evaluations++;
    stats().sub_evaluations += 54;
    if (v.kind == Verdict::FAIL) { failing->seti("incomplete", present); return v; }
    stats().nontrivial("incomplete" + std::to_string(present), "incomplete manager, present functions bitmask " + std::to_string(present) + " x 9 entry points x 2 character types x 3 operand states");
  }
  return Verdict::pass();
}
static Verdict check_dispatch(const Fields &f) {
  if (f.has("incomplete")) {
    for (int state = 0; state < 3; state++) {
      Verdict v = incomplete_one<Api<char>>((unsigned)f.geti("incomplete"), state);
      if (v.kind == Verdict::PASS) v = incomplete_one<Api<wchar_t>>((unsigned)f.geti("incomplete"), state);
      if (v.kind != Verdict::PASS) return v;
    }
    return Verdict::pass();
  }
  return check(f);
}

const Harness vf::HARNESS = {"C13", gen, check_dispatch, enumerate, nullptr};
