# Per-property configuration of the driver: binaries, budgets (case counts, never
# per-case time limits), the stated non-triviality rule and the trusted base.
PROPS = {}

PROPS["C01"] = {
    "level": "exploration",
    "technique": "property-based testing (rapidcheck) + bounded exhaustive enumeration + libFuzzer against an RFC 3986 Appendix A automaton oracle",
    "level_text": ("Differential test of the parser against an independent automaton for the RFC 3986 URI-reference grammar: acceptance, error code and "
                   "error position are compared on generated, mutated and exhaustively enumerated short texts through every entry point and both character types. "
                   "Exploration is the right level: the input space is unbounded, the oracle is exact, and short strings are covered exhaustively."),
    "level_note": "Trusted: my transcription of the ABNF (self-tested on RFC examples and against inet_pton for IPv6); ASan/UBSan; no claim for texts that were not generated.",
    "enumerate": {"strings": "all strings of length <= 4 (quick) / <= 5 (thorough) over 23 class representatives",
                  "literal_bodies": "'//[' + every body of length <= 6 (quick) / <= 8 (thorough) over {1 f 0 : . ] g}"},
    "quick": {"cases": 60000},
    "thorough": {"cases": 1500000, "ceiling_s": 3000},
    "fuzz_bins": ["build/bin/fz_c01"],
    "fuzz_seconds": 300,
    "rule": ("texts from G_noise (40% grammar-built URI references, 35% of those with 1-3 edits or a suspicious bracketed literal, "
             "15% token soup, 10% random code points; wide runs add out-of-range code points) plus the exhaustive enumerations; "
             "every text goes through all six parse entry forms for wchar_t and, when representable, char. "
             "Non-trivial = accepted with >= 2 components present, or rejected with L >= 1 (the rejection is not at the first character); "
             "distinct by text."),
    "assumptions": ["the oracle is my transcription of RFC 3986 Appendix A into an automaton (self-checked against RFC examples and inet_pton)",
                    "error positions inside a bracketed literal are only required to stay within that literal (latitude of the statement)",
                    "inputs longer than ~150 characters are rare; lengths near INT_MAX are out of reach"],
}
