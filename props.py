# Per-property configuration of the driver: binaries, budgets (case counts, never
# per-case time limits), the stated non-triviality rule and the trusted base.
PROPS = {}

PROPS["C01"] = {
    "level": "exploration",
    "technique": "property-based testing (rapidcheck) + bounded exhaustive enumeration + libFuzzer against an RFC 3986 Appendix A automaton oracle",
    "level_text": ("Differential test of the parser against an independent automaton for the RFC 3986 URI-reference grammar: acceptance, error code and "
                   "error position are compared on generated, mutated and exhaustively enumerated short texts through every entry point and both character types. "
                   "Exploration is the right level: the input space is unbounded, the oracle is exact, and short strings are covered exhaustively."),
    "level_note": "Trusted: my transcription of the ABNF (self-tested on RFC examples and against inet_pton for IPv6); ASan/UBSan; no claim for texts that were not generated.",
    "enumerate": {"strings": "all strings of length <= 4 (quick) / <= 5 (thorough) over 23 class representatives",
                  "literal_bodies": "'//[' + every body of length <= 6 (quick) / <= 8 (thorough) over {1 f 0 : . ] g}"},
    "quick": {"cases": 100000},
    "thorough": {"cases": 800000, "ceiling_s": 3000},
    "rule": ("texts from G_noise (40% grammar-built URI references, 35% of those with 1-3 edits or a suspicious bracketed literal, "
             "15% token soup, 10% random code points; wide runs add out-of-range code points) plus the exhaustive enumerations; "
             "every text goes through all six parse entry forms for wchar_t and, when representable, char. "
             "Non-trivial = accepted with >= 2 components present, or rejected with L >= 1 (the rejection is not at the first character); "
             "distinct by text."
             " Two further entries pass the optional errorPos output as NULL. Every allocation-failure position of uriParseSingleUriExMm: the answer is the out-of-memory code or the fault-free verdict, never the opposite verdict. Long mode (1 case in 16) scales lengths by 8 and may place one segment of 2^16+1..3 characters."),
    "assumptions": ["the oracle is my transcription of RFC 3986 Appendix A into an automaton (self-checked against RFC examples and inet_pton)",
                    "error positions inside a bracketed literal are only required to stay within that literal (latitude of the statement)",
                    "inputs longer than ~150 characters are rare; lengths near INT_MAX are out of reach"],
}

PROPS["C02"] = {
    "level": "exploration",
    "technique": "property-based testing (rapidcheck) + bounded exhaustive enumeration against an RFC 3986 Appendix B decomposition model with pointer-identity checks",
    "level_text": ("Every accepted text is split by an independent Appendix-B model (plus host classification and IP value computation); each reported range must be "
                   "the identical sub-range of the input (pointer + length), absent vs empty is distinguished, the path list/tail/absolutePath/owner are checked, for all "
                   "entry points and both character types. Exploration with exhaustive short strings is the right level for a per-input structural claim."),
    "level_note": "Trusted: M_split (self-tested on RFC examples), the grammar automaton used to select accepted texts; 'reserved' fields are not inspected.",
    "enumerate": {"strings": "accepted members of all strings of length <= 5 (quick) / <= 6 (thorough) over 19 representatives",
                  "literal_bodies": "accepted members of '//[' + bodies of length <= 7 (quick) / <= 9 (thorough) over {1 f 0 : . ] A}"},
    "quick": {"cases": 70000},
    "thorough": {"cases": 560000, "ceiling_s": 3000},
    "rule": ("accepted texts: 80% grammar-directed G_uri, 20% accepted survivors of G_noise, plus the accepted members of the exhaustive enumerations; "
             "non-trivial = >= 3 components present, or an IP host, or >= 2 path segments; distinct by text"
             " Every allocation-failure position k of uriParseSingleUriExMm is tried as well: a parse that still reports success must deliver exactly the same components."
             " The public uriParseIpFourAddress is called on every registered-name / IPv4 host text (success iff the grammar's IPv4address, same bytes)."),
    "assumptions": ["only texts accepted by the grammar oracle are judged (rejections are C01's)", "empty components may be any zero-length range"],
}

PROPS["C03"] = {
    "level": "exploration",
    "technique": "property-based testing (rapidcheck) with metamorphic tail/split-point relation, guard pages + ASan red zones, and allocation-fault enumeration on the parse entry point",
    "level_text": ("For each generated text every split point is parsed (a) from a private exact-size heap copy, (b) in place inside the longer text, (c) followed by adversarial "
                   "tails, (d) flush against PROT_NONE pages on either side with the input mapped read-only; outcomes (code, error offset, all components with offsets) must coincide. "
                   "Failures (syntax, and allocation failure at every request position, fail-once and fail-from) must leave zero blocks and tolerate repeated free calls."),
    "level_note": "Trusted: ASan red zones, the MMU, my recording memory manager. Reads inside a mapped page but outside the range are visible at one-character granularity only in the flush placements and heap copies.",
    "quick": {"cases": 30000},
    "thorough": {"cases": 240000, "ceiling_s": 3000},
    "rule": ("G_noise texts over 0..255 (NUL included: explicit-range entry point); every prefix is a sub-case. Non-trivial = the text is rejected after its first character, "
             "or a split point falls inside a multi-character token (pct triplet, IP literal, after ':' or '.'), or an allocation failure hit at k >= 2; distinct by text"
             " Each split point and tail goes through the single-call entry (recording manager) and the state-based entry uriParseUriEx (default manager; nothing may be outstanding right at its failing return, before any cleanup); allocation faults are enumerated for both."
             " Fixed probes: ranges of INT_MAX+1, INT_MAX+4096 and 2*INT_MAX characters (a never-touched read-only mapping of zero pages whose first character is a syntax error) through both entries and character types."),
    "assumptions": ["texts longer than 300 characters are not generated"],
    "enumerate": {"huge_ranges": "3 range lengths beyond INT_MAX x 2 entry points x 2 character types (fixed probes, not sampled)"},
}

PROPS["C04"] = {
    "level": "exploration",
    "technique": "property-based testing (rapidcheck) + bounded exhaustive enumeration, parse/recompose round trip with a model-computed IPv6 exception",
    "level_text": ("Round trip on every accepted text: uriToString(parse(s)) must equal s character for character (IPv6 literals: the eight-group lower-case text of the address "
                   "the model computes from s); the text parses again to a uriEqualsUri-equal and component-equal URI; an owned copy recomposes identically after the source buffer "
                   "is scribbled and freed. Both character types."),
    "level_note": "Trusted: grammar automaton (selects accepted texts), IPv6 value model (checked against inet_pton in C01's self-test).",
    "enumerate": {"strings": "accepted members of all strings of length <= 5 (quick) / <= 6 (thorough) over 15 representatives"},
    "quick": {"cases": 90000},
    "thorough": {"cases": 720000, "ceiling_s": 3000},
    "rule": ("60% G_uri, 30% pool of degenerate combinations named by the property (empty host/port/userinfo, leading empty segments, lone / ? #, IPv4, IP literals), "
             "10% accepted G_noise; non-trivial = authority present or >= 2 components; distinct by text"
             " Every allocation-failure position of the parse and of uriMakeOwnerMm is tried: whatever is still reported as success must recompose to the same text."),
    "assumptions": ["texts >= 2^31 characters are out of reach"],
}

PROPS["C05"] = {
    "level": "exploration",
    "technique": "property-based testing (rapidcheck) with exhaustive capacity enumeration per URI and guard-page destination buffers",
    "level_text": ("For URIs obtained by parsing, resolution and normalisation, the required-size query is compared with the actual text length, and uriToString is called with EVERY "
                   "capacity from -2 to N+3 into a buffer of exactly that many characters placed flush against a PROT_NONE page: success/failure code, charsWritten, termination, "
                   "empty-string-on-failure and absence of any write beyond the capacity are checked. The capacity dimension is exhaustive per URI; URIs are explored."),
    "level_note": "Trusted: the MMU (guard page) and ASan. URIs whose text exceeds 256 characters get boundary capacities plus a stride instead of all capacities.",
    "quick": {"cases": 90000},
    "thorough": {"cases": 720000, "ceiling_s": 3000},
    "rule": ("URIs: 36% parsed G_uri, 36% results of uriAddBaseUriEx on correlated pairs, 28% normalised with a random or full mask; each with all capacities -2..N+3 and charsWritten "
             "NULL in 1/3 of cases. Non-trivial = URI with >= 3 emitted pieces and at least one capacity strictly inside the text (0 < c <= N); distinct by case (each covers all its capacities)"
             " Sources also include created references, objects made owner first, and the survivor of a failed make-owner / normalisation; capacities include INT_MIN, INT_MIN+1 and -INT_MAX/2."),
    "assumptions": ["int accumulation beyond INT_MAX would need a multi-gigabyte URI and is out of reach"],
}

PROPS["C06"] = {
    "level": "exploration",
    "technique": "property-based testing (rapidcheck): differential against an RFC 3986 section 5.2 reference model computed from the two texts; bounded-exhaustive enumeration of all (base, reference, option) triples of a small path domain",
    "level_text": ("Correlated (base, reference) pairs are resolved by the library and by an independent string/vector model of section 5.2.2 (merge 5.2.3, segment-list dot removal, "
                   "'//' guard, identical-scheme option); scheme, user info, host text/kind/value, port, path text, query and fragment are compared with presence, plus the "
                   "recomposed text, structural well-formedness and the relative-base error code. The model is self-tested on all RFC 5.4 examples and against literal 5.2.4 on rooted paths."),
    "level_note": "Trusted: M_split/M_resolve. Where the guard dot is needed both the rooted and the rootless spelling of 'one . segment in front' are accepted (counted as relaxed).",
    "quick": {"cases": 60000},
    "thorough": {"cases": 480000, "ceiling_s": 3000},
    "rule": ("pairs from one shared pool of schemes/authorities/segments (base scheme-less in ~10%); references: relative-path 35%, absolute-path 20%, same-scheme absolute 15%, "
             "other scheme 10%, network-path 10%, empty path 10%; both options; three API forms; both character types. Non-trivial = merge or absolute-path branch taken and a dot or "
             "empty segment took part; distinct by (base, ref, option)"
             " Reference schemes related to the base's (extension, proper prefix, other letter case) in ~45% of the other-scheme references; IP hosts that differ in one half/octet; with the recording manager a quarter of the calls have their k-th allocation fail once (a still-successful result is held to the model). Enumerated domain: every base x reference x option of the bounded path domain."
             " Operands are made owner before the call in ~20% each and are bracketed bit for bit."),
    "assumptions": ["paths with more than ~12 segments are rare", "schemes differing only in letter case are judged with the option off (the statement says 'equals')"],
    "enumerate": {"pairs": "every base (scheme s, authority none|//h, path <= 2 (quick) / 3 (thorough) segments over {a, '', ., .., b:c}, rooted and rootless, query none|?q) x every reference (relative / absolute path <= 4 / 5 segments with tail none|?|#f, network-path, s:/t: absolute, empty) x both options"},
}

PROPS["C07"] = {
    "level": "exploration",
    "technique": "stateful property-based testing (rapidcheck): invariant over generated operation histories (write out, read back, compare)",
    "level_text": ("Histories of parse / resolve / create-reference / normalise(any mask) / make-owner steps over a pool of URI objects are generated and shrunk as one value; "
                   "after every producing step the produced object must be structurally well formed, recompose to text the grammar automaton accepts, and that text must parse back to the "
                   "same scheme, authority presence and parts, path text, query and fragment. Exploration over histories is the level the quantifier (all finite sequences) allows."),
    "level_note": "Trusted: grammar automaton, snapshot/read-back comparison. Histories are kept legal for a borrowed-memory API (no in-place change of an object others borrow from). Histories longer than 10 steps are not generated.",
    "quick": {"cases": 60000},
    "thorough": {"cases": 480000, "ceiling_s": 3000},
    "rule": ("history = 2 correlated parses + 1..8 steps (normalise 31%, resolve 23%, create reference 23%, make owner 15%, parse 8%), ambiguity-prone segment vocabulary ('', '.', '..', 'a:b', "
             "'%2e'), all masks, both options/modes, both character types. Non-trivial = >= 2 non-parse steps of which at least one changed a path; distinct by history"
             " A third of the histories run under a fault plan: the k-th allocation (k=1 in a third of them) of every producing step fails once through a recording manager; what is still returned as success is judged like any other result. The second parse is a sibling of the base (same scheme/authority, base directory + fresh segments) in ~23%."),
    "assumptions": ["objects hand-built by a caller are outside the property ('returned by' the library)"],
}

PROPS["C08"] = {
    "level": "exploration",
    "technique": "property-based testing (rapidcheck) against a normal-form reference model, with the mask dimension (64) and ownership (2) enumerated exhaustively per URI; bounded-exhaustive enumeration over a small path domain; allocation-failure positions enumerated",
    "level_text": ("Each generated URI reference is normalised with ALL 64 masks from a borrowed and from an owned start state; the recomposed text must equal the model's normal form "
                   "(scheme/host case, triplet repair and decoding of unreserved characters per component, dot-segment removal with the leading '..' rule, untouched components unchanged), "
                   "a second application must change nothing, the mask reported by both mask queries must reproduce full normalisation, and mask 0 must mean 'already normal'."),
    "level_note": "Trusted: M_split/M_norm (self-tested on the RFC 6.2.2 example and the repository's documented examples). In the four path corner shapes (path vanishes / empty or ':' first segment / host-less '//') alternative guard spellings are accepted and counted. Over-reporting by the mask query is allowed.",
    "quick": {"cases": 6000},
    "thorough": {"cases": 48000, "ceiling_s": 3000},
    "rule": ("G_uri texts with case/percent-rich additions (upper-case schemes and hosts, %41 %7e %2F %c3%A4, IP-literal hosts in upper case) x 64 masks x {borrowed, owned} x {default, recording manager}; "
             "non-trivial = at least two components change under the full mask or the path loses a dot segment; distinct by text (each covers its 128 (mask, ownership) sub-cases)"
             " With the recording manager every allocation-failure position k of the full-mask call is tried in both ownership states: a call that still reports success must give the full normal form. Enumerated domain: every text of the bounded path domain x 64 masks x 2 ownerships."
             " After each normalisation through the recording manager the URI is released and the manager must end empty without having seen a foreign block."),
    "assumptions": ["non-ASCII wide characters are outside the statement"],
    "enumerate": {"texts": "every base / reference / absolute URI of the bounded path domain (paths <= 3 / 5 segments over {a, '', ., .., b:c}) x 64 masks x 2 ownership states"},
}

PROPS["C10"] = {
    "level": "exploration",
    "technique": "property-based testing (rapidcheck): round trip create-reference/resolve with shape clauses, way back cross-checked against the RFC 5.2 model; bounded-exhaustive enumeration of all (source, base, mode) triples of a small domain of absolute URIs",
    "level_text": ("For correlated pairs of absolute URIs (S, B) the reference D produced by uriRemoveBaseUri(Mm) in both modes is resolved against B with the library (and, on "
                   "disagreement, with the RFC 5.2 model) and must give S back, compared after dot-segment normalisation with an empty path under an authority read as '/'. Shape clauses "
                   "(scheme omitted / authority omitted / absolute path in domain-root mode / S unchanged for differing schemes) are demanded exactly where a reference of that shape "
                   "provably exists; the two error codes are checked for non-absolute inputs."),
    "level_note": "Trusted: uriAddBaseUri for the way back (itself checked by C06 against the model), snapshots. One open known finding (F-S5: base path with dot segments) is excluded by class predicate and counted.",
    "quick": {"cases": 80000},
    "thorough": {"cases": 640000, "ceiling_s": 3000},
    "rule": ("(S, B) from one pool with forced overlap classes: identical 8%, S prefix of B 12%, B prefix of S 14%, differ in last segment 16%, other port/userinfo/authority 10%, query on one side 8%, "
             "rooted vs rootless 6%, other scheme 8%, unrelated path 12%, non-absolute 6%; '.'/'..' segments in 15%; both modes; both managers; both character types. "
             "Non-trivial = same scheme and same host presence/text (the relative branch is reachable); distinct by (S, B, mode)"
             " Schemes related by extension/prefix in the other-scheme class; IP hosts differing in one half/octet; with the recording manager a quarter of the calls have their k-th allocation fail once. Enumerated domain: every (source, base) pair of absolute URIs of the bounded domain x both modes."
             " S / B are made owner before the call in 25% / 17%; after the reference and the way back have been released S and B must be unchanged and releasable (ASan). Base queries include the empty query."
             " One case in ten shares memory between the operands: B parsed from a prefix view of S's own buffer (S = B + a few characters), or one object passed as source and base. In long mode a third of the bases lie 250-300 directories deep."
             " domainRootMode is a non-zero value other than URI_TRUE in one case of twelve (the round trip holds under either reading). The way back is also taken from the written-out reference."),
    "assumptions": ["when both S and B lack a scheme either error code is accepted"],
    "enumerate": {"pairs": "every ordered pair of absolute URIs (schemes s|t, authority none|//h|//g|//u@h:1, path <= 2 (quick) / 3 (thorough) segments over {a, '', ., .., b:c}, rooted and rootless, query none|?q) x both modes"},
}

PROPS["C09"] = {
    "level": "exploration",
    "technique": "property-based testing (rapidcheck): metamorphic relation normalize(resolve(normalize(R),B)) == normalize(resolve(R,B)) plus kind-preservation invariants; bounded-exhaustive enumeration of all (base, reference) pairs of a small path domain",
    "level_text": ("Generated references of all kinds (constructed without percent-encoded dots) are crossed with absolute bases of all shapes; resolving the normalised reference and "
                   "the original one must give the same normalised URI (text and uriEqualsUri), and normalisation alone must neither add/remove scheme or authority nor change a "
                   "scheme-less, authority-less path between empty / relative / absolute (judged on the recomposed text). A metamorphic relation needs no normal-form model, so it also "
                   "guards the model-based C08 check from shared mistakes."),
    "level_note": "Trusted: uriAddBaseUri (checked by C06). A defect that shifts both sides equally is invisible here. One open known finding (F-N1: relative path cancels to nothing; pinned by the repository's tests) is excluded by class and counted.",
    "quick": {"cases": 70000},
    "thorough": {"cases": 560000, "ceiling_s": 3000},
    "rule": ("(B, R) from one pool: R relative-path 35%, absolute-path 20%, same-scheme absolute 15%, other scheme 10%, network-path 10%, empty path 10%; B absolute with authority / rooted / "
             "rootless / empty path; segment vocabulary without %2e. Non-trivial = R is a relative-path or absolute-path reference whose path changes under normalisation; distinct by (B, R)"
             " R is normalised after uriMakeOwner in a quarter of the cases and with its k-th allocation failing once in a quarter (a still-successful result is held to the relation). Enumerated domain: every base x reference of the bounded path domain x {borrowed, owned}."),
    "assumptions": ["references containing a percent-encoded dot are outside the statement and never generated (a safety filter counts discards: expected 0)"],
    "enumerate": {"pairs": "every base x every reference of the bounded path domain (see C06) x {R borrowed, R made owner first}"},
}

PROPS["C11"] = {
    "level": "exploration",
    "technique": "property-based testing (rapidcheck): differential against a component-identity model over mutated pairs, triples and history-produced objects; algebraic laws",
    "level_text": ("uriEqualsUri is compared with component-wise identity of independent snapshots (absent != empty, IP hosts by value, absolutePath, segment sequence) on independent pairs, "
                   "single-component mutations (14 kinds), equal-by-construction copies and objects produced by generated histories; reflexivity, symmetry, transitivity over triples, NULL "
                   "handling and bit-for-bit immutability of both arguments are checked, and for library-produced objects equality must coincide with identity of the recomposed texts."),
    "level_note": "Trusted: snapshot() (reads the public struct fields), uriToString for the text clause (C04/C05).",
    "quick": {"cases": 70000},
    "thorough": {"cases": 560000, "ceiling_s": 3000},
    "rule": ("arms: 17% three independent G_uri texts, 42% text + single-component mutation (+ second mutation or copy), 17% equal by construction (re-parse / make-owner copy / resolve empty reference), "
             "25% three objects out of a generated history. Non-trivial = the pair differs in exactly one component, or is equal without being the independent arm; distinct by case"
             " A further arm (12%) compares overlapping views of one buffer ([0,n-i), [j,n) or [0,n-j), [0,n)), so ranges of different URIs start or end at the same address."
             " History objects are also compared with the parse of their own recomposed text (identical texts => equal). The host mutation includes IPvFuture literal <-> registered name of the same characters."
             " History arm: a fifth of the histories run their producing steps with the k-th allocation failing once. Pairs may have the absolute-path flag set by hand on URIs with a host."),
    "assumptions": [],
}

PROPS["C16"] = {
    "level": "exploration",
    "technique": "property-based testing (rapidcheck) + bounded exhaustive enumeration: reference models for escape/unescape, round trip, guard-page buffers of the documented sizes",
    "level_text": ("uriEscape(Ex) output is compared with a model written from the documentation, its alphabet and the 3n/6n bound are enforced by an output buffer of exactly that size "
                   "flush against a PROT_NONE page (input read-only), the returned pointer must be the terminator and unescaping restores the input (breaks -> CRLF when normalised). "
                   "uriUnescapeInPlace(Ex) on arbitrary strings runs in a buffer of exactly n+1 characters and is compared with a two-phase model (decode triplets, then convert encoded breaks) "
                   "for all 2x4 option combinations; both character types; all strings up to length 5/6 over 13 critical characters are enumerated."),
    "level_note": "Trusted: the models, the MMU. With unencoded CR/LF in the input and a converting break mode only safety, length and the non-break characters are judged (the statement is silent there); counted as relaxed.",
    "enumerate": {"strings": "all strings of length <= 5 (quick) / <= 6 (thorough) over {% 4 1 a A g + space CR LF 0xff D 0} x all 2x2 escape and 2x4 unescape options"},
    "quick": {"cases": 90000},
    "thorough": {"cases": 720000, "ceiling_s": 3000},
    "rule": ("G_text over 1..255 built from chunks (%, %4, %41, %4G, %%41, %0D%0A, +, space, CR, LF, CRLF, 0x7f, 0x80, 0xff ...) with truncated triplets over-weighted at the very end; "
             "both entry points of each function; non-trivial = contains a character that must be escaped, a well-formed triplet or a malformed '%' and has length >= 2; distinct by text"
             " One case in sixteen passes a non-zero value other than URI_TRUE for an escape flag (reading-independent clauses only); one in sixteen runs with the process locale set to C.UTF-8."),
    "assumptions": ["code points above 255 are outside the statement"],
}

PROPS["C17"] = {
    "level": "exploration",
    "technique": "property-based testing (rapidcheck) with exhaustive capacity enumeration per list, guard-page buffers, compose/dissect round trip against a model, and near-INT_MAX size arithmetic via a shared 716 MB buffer",
    "level_text": ("For generated key/value lists the required-size figure is compared with the documented worst case, composing is tried with EVERY capacity from -1 to R+2 into a buffer of exactly "
                   "that size flush against a PROT_NONE page (any success must report length+1 <= capacity and the model text; any failure must be the too-large code), the composed text must be "
                   "legal in a query (class check and grammar automaton), the malloc variants give the same text, and dissecting with matching options returns the expected list, NULL vs empty "
                   "preserved, empty-key-no-value items gone, count correct; all blocks go back through the manager. A 'huge' class builds 1-4 items of lengths around INT_MAX/6 and INT_MAX/3 "
                   "from one shared buffer: sums beyond INT_MAX must be refused, with UBSan watching the arithmetic."),
    "level_note": "Trusted: models of compose/dissect, the MMU, UBSan. The destination content after a too-large failure is not judged (the statement does not say).",
    "quick": {"cases": 20000},
    "thorough": {"cases": 160000, "ceiling_s": 3000},
    "rule": ("lists of 1-6 items, keys/values over 1..255 from chunks (%, %41, +, space, CR, LF, CRLF, &, =, ==, #, 0x80 ...), value NULL in 1/4, empty key in 1/6; both flags, four break modes, "
             "both managers, itemCount NULL in 1/3, plain API in 1/4; 1/40 of the cases are 'huge'. Non-trivial = >= 2 items, at least one NULL/empty value or empty key or a character that "
             "needs escaping, and a capacity strictly inside (0, R]; or a huge list; distinct by case"
             " One case in eight passes a non-zero value other than URI_TRUE for a compose flag; only the reading-independent clauses are asserted then."
             " Half of the huge lists are tuned so that the worst-case total is exactly INT_MAX-2 .. INT_MAX+2; huge lists are also composed directly into 8- and 64-character guarded buffers."),
    "assumptions": ["lists with embedded NUL cannot be expressed through the API"],
}

PROPS["C18"] = {
    "level": "exploration",
    "technique": "property-based testing (rapidcheck) + bounded exhaustive enumeration: filename -> URI string -> filename round trip with form check against the grammar automaton and guard-page buffers of the documented sizes",
    "level_text": ("Unix names (any string over 1..255) and Windows names constructed in exactly the three classes the statement names (drive-absolute, UNC with non-empty server, relative; "
                   "backslashes only) are converted to URI strings in buffers of exactly 7+3n+1 / 8+3n+1 / 3n+1 characters flush against a guard page; the result must be a valid URI reference of the "
                   "stated form and convert back, in a buffer of exactly the documented length, to the original name; the short forms file:/x and file:c:/x are derived and must give the same name. "
                   "All names up to length 6/7 over {a C : \\\\ / space % .} are enumerated in every class they belong to."),
    "level_note": "Trusted: the grammar automaton, the MMU. Names outside the statement's classes (drive-relative 'X:rest', non-letter drives, Windows names containing '/') are not generated.",
    "enumerate": {"names": "all names of length <= 6 (quick) / <= 7 (thorough) over {a C : \\ / space % .}, each in every class whose definition it meets"},
    "quick": {"cases": 120000},
    "thorough": {"cases": 960000, "ceiling_s": 3000},
    "rule": ("classes: unix absolute 25%, unix relative 17%, windows drive 25%, windows UNC 17%, windows relative 17%; segments from chunks incl. space % : # ? 0x7f 0x80 0xff; "
             "non-trivial = the name contains a character that needs escaping or >= 2 separators; distinct by (class, name)"
             " Unix names may start with 250-260 slashes (1 in 64 of the absolute ones), names with 250-300 separators (1 in 64) and names longer than 2^16 characters (1 in 128) are generated."),
    "assumptions": ["'file:/x' is only a short form while the name does not itself start with '//'"],
}

PROPS["C14"] = {
    "level": "fault_enumeration",
    "technique": "fault injection driven by property-based generation: exhaustive enumeration of the failing allocation position k (fail-once and fail-from-k) per generated call, with a recording memory manager as oracle",
    "level_text": ("For every generated (operation, input) - parse, resolve, create reference, normalise (any mask, borrowed/owned, also on resolved objects), make owner, dissect query, compose query - "
                   "a dry run counts the n allocation requests; then every position k in 1..n is made to fail, once and from k on, plus random bit-mask plans, each on fresh objects. The call must "
                   "return the out-of-memory code, the caller's ordinary cleanup must bring the recording manager to zero outstanding blocks with no double/foreign free, read-only operands must be "
                   "bit-for-bit unchanged, ASan sees any touch of released memory; plans that do not bite must reproduce the fault-free result. The position dimension is exhaustive per call."),
    "level_note": "Trusted: the recording manager, ASan. Only failure patterns are injected, not an allocator returning garbage. For n > 64 the first 32 positions plus 32 spread positions are used.",
    "quick": {"cases": 40000},
    "thorough": {"cases": 320000, "ceiling_s": 3000},
    "rule": ("operations weighted normalise 21%, resolve 16%, create reference 16%, parse 11%, make owner 11%, dissect 11%, normalise-resolved 11%, compose 5%; inputs from G_uri / correlated pairs; "
             "for each: all k in 1..n x {fail-once, fail-from} + one non-biting plan + up to 8 random masks, both character types. Non-trivial = the call makes >= 2 requests (so some k >= 2 hits after "
             "something was built); distinct by case (each covers all its plans)"
             " One case in four runs with a manager completed by uriCompleteMemoryManager from a malloc/free-only recording backend (the library's calloc sites then go through the emulation)."
             " The dissect operation passes itemCount as NULL in half of its cases."),
    "assumptions": [],
}

PROPS["C15"] = {
    "level": "exploration",
    "technique": "stateful model-based property testing (rapidcheck): generated allocator call sequences against a map model with invariants after every step and backend fault plans",
    "level_text": ("Sequences of up to 40 malloc/calloc/realloc/reallocarray/free calls (sizes 0..64, 4096, values at and near SIZE_MAX, wrapping element products, NULL pointers) run against the manager "
                   "returned by uriCompleteMemoryManager over a malloc/free-only recording backend with a generated fault plan. After every step: every live block still holds its pattern over its full "
                   "size (ASan bounds the backend block), blocks are disjoint, calloc memory is zero, realloc keeps the common prefix, overflow gives NULL+ENOMEM with the old block intact, realloc(p,0) "
                   "frees, realloc(NULL,s) allocates, backend refusal surfaces as NULL with the old block intact, backend live set == caller live set, each backend block released once with its own pointer."),
    "level_note": "Trusted: the model, ASan, my recording backend. Alignment is not asserted (not claimed by the statement).",
    "quick": {"cases": 60000},
    "thorough": {"cases": 480000, "ceiling_s": 3000},
    "rule": ("sequences of 1-40 ops: realloc 29%, malloc 24%, free 19%, calloc 14%, reallocarray 14%; pointer argument NULL in 1/8; fault mask on the first 40 backend requests in half of the sequences. "
             "Non-trivial = >= 3 live blocks at some point and a grow after a shrink or a backend failure during growth; distinct by sequence"
             " Two managers completed from two different backends live side by side (a block returns to the manager that made it; each backend's ledger must match); sizes include 70 000 - 270 000 byte blocks."
             " Backends with extra functions; the backend struct must be unchanged by the completion; uriTestMemoryManager on the completed manager in one case of eight; sizes near 2/3 of the size_t range."),
    "assumptions": [],
    "enumerate": {"huge_block": "one fixed history with a block of 4 GiB + 64 bytes (malloc, grow, shrink, free) through a completed manager over a mapping backend; run in one shard, skipped (and counted) when less than 12 GiB are free"},
}

PROPS["C12"] = {
    "level": "exploration",
    "technique": "stateful property-based testing (rapidcheck): scribble-and-free metamorphic check on owned URIs plus bit-for-bit bracketing of every read-only argument, under ASan",
    "level_text": ("Histories (parse / resolve / create reference / normalise / make owner / observers) end in make-owner or normalisation with a non-zero mask on an object that may borrow from several "
                   "source texts and from library constants. The object must be flagged owner, keep text and components across make-owner, and after every source text has been overwritten with 0xFF "
                   "and freed and every other object released it must still recompose to the same text with the same components and release cleanly (ASan reports any access to the freed sources). "
                   "Every call in the history is bracketed: const URI arguments (operands of resolve, create-reference, equals, toString, charsRequired, both mask queries) must be bit-for-bit "
                   "unchanged and every caller-supplied text byte-for-byte unchanged."),
    "level_note": "Trusted: ASan (use-after-free detection), freeze() (struct bytes, path nodes, IP data and referenced text). Read-only page protection of inputs is exercised in C03/C16, here byte comparison is used.",
    "quick": {"cases": 70000},
    "thorough": {"cases": 560000, "ceiling_s": 3000},
    "rule": ("histories of 2 correlated parses + 1..7 steps incl. observers, then a final make-owner (50%) or normalise with mask 1..63 on an object nobody else borrows from; all host kinds; both "
             "character types. Non-trivial = the final object was not yet owner and has >= 3 non-empty components including a host, or borrows from >= 2 source texts; distinct by history"
             " In a quarter of the cases the k-th allocation (k in 1..8) of the final step fails once (default manager, through the redirected libc references): the caller's texts and all other objects must be untouched and everything must still be releasable."
             " One final normalisation in ten uses a mask with bits beyond the documented six (64, 1<<20, 0x80000000, ~63, -1)."),
    "enumerate": {"huge_components": "6 fixed probes (not sampled): make-owner / normalise(SCHEME) on the URI that '?' + 2^29 resp. 2^30 x 'a' parses to, wchar_t and char; the manager records the sizes asked for; "
                                      "the copy is checked at 10 positions incl. both ends (F-W1)"},
    "assumptions": ["a caller does not change an object in place while other live objects borrow from it (histories are generated legal)",
                    "the huge-component probes set the URI up as the parser would leave it (parse of the prefix '?a', query range extended over the n characters) because this -O1 sanitizer build "
                    "does not turn the parser's per-character recursion into a loop; regress/C12/F-W1-demo.c.txt performs the real parse with -O2"],
}

PROPS["C13"] = {
    "level": "exploration",
    "technique": "stateful property-based testing (rapidcheck) with recording memory managers and objcopy-redirected libc allocator references; exhaustive enumeration of the 31 incomplete managers x 9 entry points",
    "level_text": ("Histories over every function that takes a manager bind each object to recording manager A, B, a manager completed from a malloc/free-only backend, or NULL. The library objects' own "
                   "references to malloc/calloc/realloc/reallocarray/free are renamed at build time, so any call the library makes to the C allocator is counted: it must be zero under a custom manager, "
                   "and custom managers must see nothing under NULL. Every free must name an outstanding block of the same manager with the exact pointer; after the matching release calls every manager "
                   "(and the libc ledger) is back to zero; repeated uriFreeUriMembersMm is harmless. All 31 incomplete managers are rejected by all nine ...Mm entry points with the dedicated code "
                   "before any request reaches them and without touching the URI."),
    "level_note": "Trusted: the recording managers, the symbol redirection (verified by the NULL-manager ledger moving), ASan/LSan.",
    "enumerate": {"incomplete_managers": "all 31 proper subsets of {malloc, calloc, realloc, reallocarray, free} x 9 ...Mm entry points x 2 character types x 3 operand states (parsed / owner / owner through partial normalisation), plus uriCompleteMemoryManager on each"},
    "quick": {"cases": 75000},
    "thorough": {"cases": 600000, "ceiling_s": 3000},
    "rule": ("histories of 2 parses + 1..8 steps + 0..2 dissect/compose/free-list steps, manager chosen per step among {NULL, A, B, completed}; both character types. Non-trivial = >= 3 manager-taking "
             "calls on >= 2 objects; distinct by history (incomplete-manager combinations counted separately)"
             " For a quarter of the steps the j-th request of that call fails once, whichever manager serves it; all ledger invariants are checked regardless of the return code."
             " The incomplete-manager enumeration runs in three operand states: freshly parsed, made owner, owner through a partial normalisation."
             " The completed manager's backend offers calloc / realloc / reallocarray of its own in a third of the histories; uriTestMemoryManager is exercised on complete and incomplete managers."),
    "assumptions": ["an object is always released with the manager that built it"],
}

PROPS["C19"] = {
    "level": "exploration",
    "technique": "differential property-based testing (rapidcheck): the same generated transcript through the char and the wchar_t API, exact-size wide buffers under ASan",
    "level_text": ("One generated history - URI operations (parse incl. invalid texts with error offsets, resolve, create reference, normalise, make owner, equals, mask query, recomposition with "
                   "arbitrary capacities) plus escape, unescape, dissect/compose (required size, three capacities, malloc variant) and the four filename conversions - is executed through both "
                   "character types; the two transcripts (codes, narrowed texts, component snapshots, error offsets, counts, required sizes, chars written) must be identical. Every wide buffer is an "
                   "exact-size heap block counted in characters, so bytes-vs-characters mistakes surface as ASan reports or as truncated/garbled wide results."),
    "level_note": "Trusted: the narrow API as reference (its own semantics are checked by C01-C18), ASan.",
    "quick": {"cases": 60000},
    "thorough": {"cases": 480000, "ceiling_s": 3000},
    "rule": ("history of 2 correlated parses + 1..6 URI steps with observers + 1..5 extra steps (escape, unescape, query, filename, toString-with-capacity, possibly invalid parse) over code points 1..255; "
             "non-trivial = >= 3 ops and at least one produced text of length >= 8; each of the ten function groups is exercised in > 15% of transcripts (histogram); distinct by transcript"
             " In a quarter of the transcripts the k-th allocation of every other step (from the third on) fails once, identically for both APIs: error paths must agree too."),
    "assumptions": ["inputs are restricted to code points 1..255 (representable in both types)"],
}

PROPS["C20"] = {
    "level": "exploration",
    "technique": "property-based generation of multi-threaded workloads: differential against single-threaded results, ThreadSanitizer (happens-before race detection) on the same workloads, and a checksum invariant over the shared object's writable segments plus a scan of writable symbols in the compiled objects",
    "level_text": ("Generated workloads share one parsed base URI, one source URI, one reference, a query list and texts among 2..8 threads whose op lists cover every public call taking those inputs as const "
                   "(resolve, create reference, equals, toString, charsRequired, mask query, compose, escape, filename) and calls on thread-private objects (parse, normalise, make owner, dissect); every "
                   "result must equal the single-threaded result and the shared inputs must stay bit-for-bit unchanged. The same workloads run in a ThreadSanitizer build where any race report is a "
                   "violation: happens-before analysis flags unsynchronised conflicting accesses whenever both execute, independent of the interleaving hit. 'No writable global': the writable non-RELRO "
                   "segments of the plain shared object are checksummed before the first call and after every workload, and every object symbol in .data/.bss/COMMON of the compiled objects must be "
                   "on an allow list (defaultMemoryManager: initialised at load time, never written)."),
    "level_note": "Trusted: ThreadSanitizer, the ELF program headers. Workloads are explored, interleavings are not enumerated; races with the C library and liveness are out of scope. defaultMemoryManager sits in .data but is never written (checked by the checksum).",
    "bins": ["build/bin/c20", "build/bin/c20_tsan"],
    "extra_targets": ["build/plain/liburi_plain.so", "build/plain/liburi.a"],
    "symbol_scan": {"allow": ["defaultMemoryManager"]},
    "shrink_limit": 300,  # every case starts threads: keep shrinking short
    "quick": {"cases": [1500, 1500], "workers": 8},
    "thorough": {"cases": [12000, 12000], "ceiling_s": 3000},
    "rule": ("workload = shared inputs from correlated generators + 2..8 threads x 3..10 ops (13 op kinds) x 3 repetitions with generated yield/spin points, char or wchar_t API; run once under ASan with the "
             "writable-segment checksum and once under TSan. Non-trivial = >= 2 threads and >= 2 ops on shared operands; distinct by workload"
             " Half of the ops on resolve / create-reference / private parse+normalise / parse+make-owner go through a thread-private recording manager, most of them with its k-th request failing once; the manager must never be handed a block that is not its own (e.g. one belonging to a shared operand) and must end empty."
             " A further op completes a thread-private manager from one shared backend manager (an input that must stay unchanged). One workload in six shares operands whose absolute-path flag was set by hand."),
    "assumptions": ["threads only write to their own outputs (the statement's precondition)"],
}

# libFuzzer campaigns (thorough tier only): same decoders and oracles inside the target
for _pid, _secs, _len in (("C01", 240, 400), ("C02", 120, 400), ("C03", 120, 300), ("C04", 180, 400), ("C05", 120, 512), ("C06", 180, 512), ("C07", 240, 1024), ("C08", 180, 512),
                          ("C09", 150, 512), ("C10", 180, 512), ("C11", 150, 1024), ("C12", 150, 1024), ("C13", 150, 1024), ("C14", 150, 512), ("C15", 120, 600), ("C16", 180, 600),
                          ("C17", 180, 1024), ("C18", 120, 400), ("C19", 180, 1024)):
    PROPS[_pid]["fuzz_bins"] = ["build/bin/fz_" + _pid.lower()]
    PROPS[_pid]["fuzz_seconds"] = _secs
    PROPS[_pid]["fuzz_max_len"] = _len
    PROPS[_pid]["technique"] += "; thorough tier adds a coverage-guided libFuzzer campaign over the same decoder and oracle"


# ---- session 5 (round 6) additions, appended to the stated rules ---------------------------------------------------------
_ADD6 = {
    "C01": " One case in 16 runs under the C.UTF-8 locale (character classes must not follow <ctype.h>/<wctype.h>).",
    "C02": " One case in 16 runs under the C.UTF-8 locale.",
    "C05": " Parsed URIs are also written into a destination that begins exactly where the unterminated text they were parsed from ends (one arena), capacities N+1, N, N/2, 1.",
    "C06": " One case in six takes reference and base from the objects a short history of library calls leaves behind (resolved, created, normalised, owned, read back from the library's own text); the model is fed with the texts these objects recompose to (an IPv6 host is then compared by value only).",
    "C07": " Histories hand every output structure to the library filled with 0xA5 bytes and have two more steps: W (the text the library writes for an object is parsed as a new object) and D (uriFreeUriMembers twice).",
    "C08": " One case in six normalises an object out of a history of library calls as it stands (mask 63 or random; the history is run twice so that a second copy is normalised with the mask the query reports); the model is fed with the object's text. One case in 16 runs under the C.UTF-8 locale. Host vocabulary: dotted quads of every length 7..15 that appear only after decoding, a capital right behind a kept escape, lone escapes, localhost.",
    "C09": " One case in six normalises R as an object out of a history of library calls (B another such object, known by its text). 2^16-sized segments have lengths whose low 16 bits are 0..|prefix|.",
    "C10": " One case in six takes S and B from the objects a history of library calls leaves behind. Long mode: bases about 1000 directories deep; one pair in three has long twins (a segment, host or scheme of 96..1024 characters, same length in S and B, first difference in the second half).",
    "C11": " Host vocabulary: dotted quads of every length 7..15 that appear only after decoding (fully or partly encoded), localhost, file scheme; histories as in C07 (0xA5-filled outputs, steps W and D).",
    "C12": " Histories as in C07 (0xA5-filled outputs, steps W and D); one history in 16 in long mode (paths of 384..1025 segments, components of about 1000 / 1024 / 4096 characters, clean or with one capital). Six fixed probes with components of 2^29 / 2^30 characters (F-W1).",
    "C13": " Histories as in C07 (0xA5-filled outputs, steps W and D; D through the object's own manager).",
    "C16": " Escaping also with both strings in one arena: the output buffer directly behind the unterminated input range, and the input range directly behind the output buffer.",
    "C17": " One list in 24 has a key or value of about 1024 / 2048 / 2500 / 4096 characters. Half of the tuned huge lists tune the last item's own contribution ('&' key '=' value) to INT_MAX-2..+2 instead of the total.",
    "C18": " UNC names with servers / first segments that software special-cases (localhost, ?, ., 127.0.0.1, C:, UNC, c$); in half of the cases the file name sits directly in front of or directly behind the URI buffer (one arena / one struct).",
    "C19": " Histories as in C07 (steps W and D); one query step in ten has a key of about 1024..4097 characters.",
    "C20": " All shared inputs (URI structures, their path nodes and host data, the texts, the query list, the backend manager) live in one arena that is PROT_READ during the single-threaded expectation phase and the concurrent phase: a write into a shared input faults even if it stores the value already there.",
}
for _pid, _txt in _ADD6.items():
    PROPS[_pid]["rule"] += _txt
PROPS["C12"]["technique"] += "; fixed probes with components of 2^29 / 2^30 characters under a size-recording manager"
PROPS["C20"]["technique"] += "; shared inputs held in read-only pages"
for _pid in ("C06", "C08", "C09", "C10"):
    PROPS[_pid]["technique"] += "; operands also taken from generated histories of library calls (stateful generation), judged against the same model via their recomposed texts"


# ---- round 7 additions ------------------------------------------------------------------------------------------------------
_ADD7 = {
    "C01": " The literal within which an error position may move ends where the run of literal-capable characters ends (an unclosed literal does not reach to the end of the text). G_noise appends zone identifiers / prefix lengths to well-formed IPv6 addresses.",
    "C02": " Texts outside the grammar are kept in half of the noise arm and must be refused (the statement's 'on success' presupposes membership); every accepted text is also tried with each character lifted beyond 255 (wchar_t). Vocabulary: references, hosts and user infos that other specifications / browsers treat specially (URL: prefix, 0x7f.0.0.1, trailing dots, host:port-like user info).",
    "C03": " uriParseSingleUriEx takes part in the guard-page phase; the empty range at the start of every text is parsed against both guard pages.",
    "C04": " Texts outside the grammar are kept in half of the noise arm and must be refused ('for every accepted input' presupposes membership).",
    "C07": " An IPv4 host's text is part of what must read back (only IPv6 literals are re-spelled). Masks with bits beyond the documented six in one normalisation in twelve.",
    "C08": " One text in 24 comes from about 90 'famous' references that other specifications, browsers or servers treat specially (text fragments, ';' parameters, file: drives, default ports, inet_aton hosts ...).",
    "C12": " Before the sources are scribbled the recomposed text of the owned URI is written over one of the original strings.",
    "C13": " Query steps dissect / compose / free generated query texts (counted as query_steps_with_items); masks with bits beyond the documented six.",
    "C16": " Chunks include escapes of other dialects (%uXXXX, %x41, &#65;, percent-encoded and overlong UTF-8), all of which are malformed or plain bytes here.",
    "C18": " UNC servers that look like bracketed literals, user info or host:port.",
    "C19": " Percent-encoded UTF-8 in the texts; after a refused uriToString the whole buffer is part of the transcript.",
    "C20": " The mask query also runs on the shared (usually relative) reference.",
}
for _pid, _txt in _ADD7.items():
    PROPS[_pid]["rule"] += _txt
