#!/usr/bin/env python3
"""Regenerates MANIFEST.json from props.py (single source of truth for what is claimed)."""
import json, os
from props import PROPS
ROOT = os.path.dirname(os.path.abspath(__file__))
ALL = ["C%02d" % i for i in range(1, 21)]
NOT_YET = {}
try:
    from props import NOT_APPLICABLE
except ImportError:
    NOT_APPLICABLE = {}
checks = []
for pid in ALL:
    if pid not in PROPS or PROPS[pid].get("unclaimed"):
        continue
    P = PROPS[pid]
    checks.append({
        "property_id": pid,
        "quick_cmd": "./check %s --tier quick" % pid,
        "thorough_cmd": "./check %s --tier thorough" % pid,
        "evidence_file": "/verif/evidence/%s.json" % pid,
        "replay_cmd_template": "./check %s --replay {path}" % pid,
        "engine": P.get("engine", "rapidcheck"),
        "level_claimed": {"category": P["level"], "text": P["level_text"], "design_ref": P.get("design_ref", "DESIGN.md section 6, " + pid)},
        "level_note": P["level_note"],
        "technique": P["technique"],
    })
na = [{"property_id": pid, "reason": NOT_APPLICABLE.get(pid, "check not built yet in this session; no verdict is claimed for this property")}
      for pid in ALL if pid not in [c["property_id"] for c in checks]]
m = {
    "version": 1,
    "setup_cmd": "make -j16 all",
    "hooks": {
        "guard": "URIPARSER_VERIF",
        "enable": "no source hooks are needed: the checks compile /repo/src/*.c themselves and redirect the library objects' libc allocator references with objcopy --redefine-sym (see Makefile); the guard name is reserved and unused",
        "baseline_off_cmd": "cmake -G Ninja -S /repo -B /repo/_build >/dev/null && cmake --build /repo/_build && ctest --test-dir /repo/_build -j8 --timeout 900",
        "source_commits": [],
        "add_only": True,
    },
    "engines": [
        {"name": "rapidcheck", "path": "/verif/src/common/engine.cpp", "serves_properties": [c["property_id"] for c in checks],
         "kind_free_text": "property-based testing: rapidcheck generates and shrinks a tape of choices, each harness decodes it into an explicit case and checks it against a reference model / round trip / metamorphic relation; 16 seeded worker processes"},
        {"name": "bounded-exhaustive", "path": "/verif/src", "serves_properties": [p for p in ALL if p in PROPS and PROPS[p].get("enumerate")],
         "kind_free_text": "exhaustive enumeration of small dimensions inside the same harness binaries (strings over class representatives, capacities, failure positions, masks)"},
        {"name": "libFuzzer", "path": "/verif/src/common/fuzzengine.cpp", "serves_properties": [p for p in ALL if p in PROPS and PROPS[p].get("fuzz_bins")],
         "kind_free_text": "coverage-guided fuzzing (thorough tier only) with the same decoders and oracles inside the target, ASan+UBSan"},
    ],
    "checks": checks,
    "not_applicable": na,
    "notes": "Technique family: property-based testing and fuzzing. Open genuine defects are listed in known_findings.json; DESIGN.md describes oracles, generators and findings.",
}
with open(os.path.join(ROOT, "MANIFEST.json"), "w") as f:
    json.dump(m, f, indent=1)
    f.write("\n")
print("claimed:", [c["property_id"] for c in checks])
