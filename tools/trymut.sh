#!/bin/bash
# Sensitivity experiment: apply a patch to a scratch copy of /repo (outside /repo and
# /verif), run one property's check against it, delete the copy again.
# usage: tools/trymut.sh <ID> <patch.diff> [tier] [extra check args]
# only one experiment at a time: they share the alternative build directory
exec 9>/tmp/vf_alt.lock; flock 9
ID=$1; PATCH=$(readlink -f "$2"); TIER=${3:-quick}; shift 3 2>/dev/null
D=$(mktemp -d /tmp/vfmut.XXXXXX)
rsync -a --exclude _build --exclude .git /repo/ "$D/"
if ! (cd "$D" && patch -p1 -s < "$PATCH"); then echo "PATCH-FAILED"; rm -rf "$D"; exit 3; fi
cd "$(dirname "$0")/.."
VERIF_REPO="$D" ./check "$ID" --tier "$TIER" "$@" | grep -E "VIOLATION|KNOWN-FINDING|CHECK-|evaluations=|^# " | head -8
rc=${PIPESTATUS[0]}
rm -rf "$D" build_alt/run
exit $rc
