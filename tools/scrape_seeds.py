#!/usr/bin/env python3
"""Scrapes string literals from the repository's tests into seed files for the raw-byte arm of the fuzz targets
(first byte 0x01 selects that arm)."""
import os, re, sys
src, out = sys.argv[1], sys.argv[2]
lits = set()
for fn in sorted(os.listdir(src)):
    if not fn.endswith(".cpp"):
        continue
    text = open(os.path.join(src, fn), errors="replace").read()
    for m in re.finditer(r'L?"((?:[^"\\\n]|\\.)*)"', text):
        s = m.group(1)
        if 0 < len(s) <= 200:
            try:
                lits.add(bytes(s, "latin-1").decode("unicode_escape").encode("latin-1", "replace"))
            except Exception:
                pass
for pid in ("C01", "C04", "C16"):
    d = os.path.join(out, pid)
    os.makedirs(d, exist_ok=True)
    for i, b in enumerate(sorted(lits)):
        with open(os.path.join(d, "seed%04d" % i), "wb") as f:
            f.write(b"\x01" + b)
print("seeds:", len(lits))
