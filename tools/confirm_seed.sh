#!/bin/bash
# Independently confirm one seeded change in a fresh scratch worktree of /repo:
#  (1) demo passes on the unchanged tree, (2) change applies, builds, the repository's test suite passes,
#  (3) demo fails with the change.   usage: tools/confirm_seed.sh <ID> <mN>
ID=$1; N=$2
SRC=${SEEDROOT:-/tmp/seedwt}/$ID/out
WT=/tmp/confirmwt/$ID-$N
rm -rf $WT; mkdir -p /tmp/confirmwt
git -C /repo worktree add -q --detach $WT HEAD || exit 9
trap 'git -C /repo worktree remove --force $WT >/dev/null 2>&1' EXIT
cd $WT
mkdir -p cfg && cp /repo/_build/UriConfig.h cfg/
demo=$(ls $SRC/${N}_demo.c $SRC/${N}_demo.cpp 2>/dev/null | head -1)
CC=cc; case "$demo" in *.cpp) CC=g++;; esac
build_demo() {  # $1 = output; library sources are compiled in, with sanitizers so memory errors count as failure
  if [ "$CC" = g++ ]; then
    for f in src/*.c; do gcc -c -g -O0 -fsanitize=address,undefined -fno-sanitize-recover=undefined -DURI_STATIC_BUILD -Iinclude -Icfg $f -o /tmp/confirmwt/$ID-$N-$(basename $f).o || return 1; done
    g++ -g -O0 -fsanitize=address,undefined -fno-sanitize-recover=undefined -DURI_STATIC_BUILD -Iinclude -Icfg "$demo" /tmp/confirmwt/$ID-$N-*.o -lpthread -o $1; rc=$?; rm -f /tmp/confirmwt/$ID-$N-*.o; return $rc
  fi
  $CC -g -O0 -fsanitize=address,undefined -fno-sanitize-recover=undefined -DURI_STATIC_BUILD -D_GNU_SOURCE -Iinclude -Icfg "$demo" src/*.c -lpthread -o $1
}
build_demo demo_clean >/tmp/confirmwt/$ID-$N.build.log 2>&1 || { echo "$ID $N DEMO-BUILD-FAILED(clean)"; exit 2; }
timeout 300 ./demo_clean >/dev/null 2>&1; rc_clean=$?
git apply $SRC/$N.diff || { echo "$ID $N PATCH-DOES-NOT-APPLY"; exit 3; }
(cmake -G Ninja -S . -B _b -DURIPARSER_BUILD_DOCS=OFF >/dev/null 2>&1 && cmake --build _b >/dev/null 2>&1) || { echo "$ID $N LIB-BUILD-FAILED"; exit 4; }
tests=$(./_b/testrunner 2>&1 | tail -1)
build_demo demo_mut >>/tmp/confirmwt/$ID-$N.build.log 2>&1 || { echo "$ID $N DEMO-BUILD-FAILED(mutant)"; exit 5; }
timeout 300 ./demo_mut >/dev/null 2>&1; rc_mut=$?
ok=NO; if [ $rc_clean = 0 ] && [ $rc_mut != 0 ] && echo "$tests" | grep -q "PASSED"; then ok=YES; fi
echo "$ID $N confirmed=$ok demo_clean_rc=$rc_clean demo_mutant_rc=$rc_mut tests='$tests'"
