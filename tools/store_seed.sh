#!/bin/bash
# Confirm one freshly seeded change (SEEDROOT/<ID>/out/<N>.diff, <N>_demo.c, <N>.md) and, if confirmed, keep it as seeded/<ID>-<N>/
# usage: SEEDROOT=/tmp/seedwt6 ROUND=6 tools/store_seed.sh <ID> <N>
ID=$1; N=$2; ROOT=${SEEDROOT:-/tmp/seedwt6}; ROUND=${ROUND:-6}
cd "$(dirname "$0")/.."
res=$(SEEDROOT=$ROOT tools/confirm_seed.sh $ID $N 2>&1 | tail -1)
echo "$res"
case "$res" in *confirmed=YES*) ;; *) exit 1;; esac
D=seeded/$ID-$N; mkdir -p $D
cp $ROOT/$ID/out/$N.diff $D/patch.diff
for f in $ROOT/$ID/out/${N}_demo.c $ROOT/$ID/out/${N}_demo.cpp; do [ -f $f ] && cp $f $D/$(basename $f | sed "s/^${N}_//"); done
python3 - "$ID" "$N" "$ROUND" "$ROOT" "$res" <<'PY'
import json,sys,os
ID,N,ROUND,ROOT,res=sys.argv[1:6]
ORIGINS={"6":"round 6: told that generated testing incl. histories, faults, ownership states, capacities, magnitudes around powers of two and race detection is in place; asked for call sequences across API families, coincidences of common conditions, two cooperating sites, fault x shape combinations, odd wrap points",
         "7":"round 7: told that all of rounds 1-6 is in place (incl. operands out of histories, touching buffers, well-known special values, characters beyond 255, locale, read-only shared inputs) and that thresholds / magic constants / narrowed types are not wanted any more; asked for SEMANTIC breaks where the checking logic is likely to look away: RFC- or browser-motivated behaviour changes, equivalent-but-different results, clauses that only seem to follow from others, state a text comparison cannot see, error paths"}
try: notes=open(f"{ROOT}/{ID}/out/{N}.md").read()
except Exception: notes=""
meta={"id":f"{ID}-{N}","property":ID,"round":int(ROUND),
 "origin":"fresh sub-agent given only the property text and a scratch worktree of /repo (" + ORIGINS.get(ROUND, "round " + ROUND) + ")",
 "needs_to_manifest":notes,
 "confirmed_by_me":{"how":f"SEEDROOT={ROOT} tools/confirm_seed.sh {ID} {N}: fresh detached worktree of /repo HEAD; demo built with ASan+UBSan against pristine sources -> exit 0; patch applied with git apply; cmake+ninja build; ./testrunner -> 109 tests pass; demo rebuilt against patched sources -> non-zero. Result line: {res}","confirmed":True}}
json.dump(meta,open(f"seeded/{ID}-{N}/meta.json","w"),indent=1)
PY
