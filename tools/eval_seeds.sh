#!/bin/bash
# For each seeded change under seeded/<ID>-mN/: run the property's check (default quick) against it.
# usage: tools/eval_seeds.sh [tier] [seedid ...]    results appended to seeded/RESULTS.<tier>.txt
cd "$(dirname "$0")/.."
TIER=${1:-quick}; shift
IDS=${@:-$(ls -d seeded/C??-[mnopq]? | xargs -n1 basename)}
for S in $IDS; do
  P=${S%%-*}
  out=$(tools/trymut.sh $P seeded/$S/patch.diff $TIER 2>&1)
  if echo "$out" | grep -q "PATCH-FAILED"; then r="PATCH-FAILED"
  elif echo "$out" | grep -q "VIOLATION property=$P"; then r="CAUGHT  $(echo "$out" | grep '^# ' | head -1 | cut -c1-200)"
  elif echo "$out" | grep -q "CHECK-"; then r="CHECK-BROKEN $(echo "$out" | grep CHECK- | head -1)"
  else r="MISSED  $(echo "$out" | grep evaluations= | tail -1)"; fi
  echo "$S $r" | tee -a seeded/RESULTS.$TIER.txt
done
