#!/bin/bash
# For each seeded change produced by a sub-agent: run the property's quick check against it.
# usage: tools/eval_seeds.sh [ID ...]    results appended to /tmp/seed_eval.txt
cd "$(dirname "$0")/.."
IDS=${@:-$(ls -d /tmp/seedwt/C?? | xargs -n1 basename)}
for ID in $IDS; do
  for d in /tmp/seedwt/$ID/out/m*.diff; do
    [ -f "$d" ] || continue
    n=$(basename $d .diff)
    out=$(tools/trymut.sh $ID $d quick 2>&1)
    if echo "$out" | grep -q "PATCH-FAILED"; then r="PATCH-FAILED"
    elif echo "$out" | grep -q "VIOLATION property=$ID"; then r="CAUGHT  $(echo "$out" | grep '^# ' | head -1 | cut -c1-160)"
    elif echo "$out" | grep -q "CHECK-"; then r="CHECK-BROKEN $(echo "$out" | grep CHECK- | head -1)"
    else r="MISSED  $(echo "$out" | grep evaluations= | tail -1)"; fi
    echo "$ID $n $r" | tee -a /tmp/seed_eval.txt
  done
done
