#!/bin/bash
# Re-confirm a stored seeded change (seeded/<ID>-mN/) against the current /repo HEAD; same steps as confirm_seed.sh.
S=$1; ID=${S%%-*}; N=${S##*-}
T=$(mktemp -d /tmp/reconf.XXXXXX); mkdir -p $T/$ID/out
cp "$(dirname "$0")/../seeded/$S/patch.diff" $T/$ID/out/$N.diff
for f in "$(dirname "$0")/../seeded/$S"/demo.c*; do cp "$f" $T/$ID/out/${N}_$(basename "$f"); done
cp "$(dirname "$0")/../seeded/$S"/*.inc "$(dirname "$0")/../seeded/$S"/*.h $T/$ID/out/ 2>/dev/null
SEEDROOT=$T "$(dirname "$0")/confirm_seed.sh" $ID $N
rm -rf $T
