#!/usr/bin/env python3
"""Rebuilds seeded/SUMMARY.md and the 'checks' entry of every seeded/<id>/meta.json from seeded/RESULTS.quick.txt
(append-only log of tools/eval_seeds.sh runs: the first line of a change is its first contact, the last one its final verdict)."""
import json, os, re, glob
ROOT = os.path.join(os.path.dirname(os.path.abspath(__file__)), "..", "seeded")
first, last = {}, {}
for line in open(os.path.join(ROOT, "RESULTS.quick.txt")):
    m = re.match(r"^(C\d\d-[a-z]\d) (CAUGHT|MISSED|PATCH-FAILED|CHECK-BROKEN)\s*(.*)$", line.rstrip("\n"))
    if not m: continue
    sid, verdict, msg = m.groups()
    msg = re.sub(r"^# ", "", msg)
    msg = re.sub(r"^==\d+==", "", msg)
    first.setdefault(sid, (verdict, msg)); last[sid] = (verdict, msg)
# first-contact verdicts already on record (earlier rounds were evaluated before this log existed in its present form)
pinned = json.load(open(os.path.join(ROOT, "first_contact.json")))
rows, per_round = [], {}
for d in sorted(glob.glob(os.path.join(ROOT, "C??-??"))):
    sid = os.path.basename(d)
    meta = json.load(open(os.path.join(d, "meta.json")))
    rnd = meta.get("round", "?")
    f, l = first.get(sid, ("not run", "")), last.get(sid, ("not run", ""))
    if sid in pinned: f = (pinned[sid].upper(), "")
    note = meta.get("verdict_note", "")
    meta["checks"] = {"first_contact": f[0].lower(), "final": l[0].lower(), "final_message": l[1][:300], **({"note": note} if note else {})}
    json.dump(meta, open(os.path.join(d, "meta.json"), "w"), indent=1)
    rows.append("| %s | %s | %s | %s | %s |" % (sid, rnd, f[0].lower(), l[0].lower() + (" (*)" if note else ""), (l[1][:110] if l[0] == "CAUGHT" else note[:160]).replace("|", "\\|")))
    pr = per_round.setdefault(rnd, [0, 0, 0]); pr[0] += 1; pr[1] += f[0] == "MISSED"; pr[2] += l[0] == "MISSED"
out = ["# Seeded changes: what the quick tier of the targeted property reports", "",
       "first contact = the check as it stood when the change arrived; final = the check after the strengthening that round triggered (earlier rounds were last run before later additions, which only add cases). "
       "Rounds 1-3 are m1..m9, round 4 is n1..n3, round 5 is o1..o3, round 6 is p1..p3. (*) = see the note (not judged on purpose, or a blind spot that is recorded).", "",
       "| change | round | first contact | final | message of the final check (truncated) / note |", "|---|---|---|---|---|"] + rows + [""]
for r in sorted(per_round, key=str):
    n, fm, lm = per_round[r]
    out.append("round %s: %d changes, %d missed at first contact, %d still missed" % (r, n, fm, lm))
open(os.path.join(ROOT, "SUMMARY.md"), "w").write("\n".join(out) + "\n")
print("\n".join(out[-len(per_round):]))
