#!/bin/bash
# runs every revert-fix mutant against the properties it is recorded for (quick tier)
cd "$(dirname "$0")/.."
python3 - <<'PY' > /tmp/revert_plan.txt
import json
d=json.load(open('known_findings.json'))
m={'F-R1':'F-R1','F-R2R3':'F-R23','F-N7':'F-N7','F-N234-8':'F-N234-8','F-N6':'F-N6','F-N9':'F-N9','F-S1':'F-S1','F-S2-S7':'F-S2-S7','F-S6':'F-S6','F-S3-S8':'F-S3-S8','F-S4-S9':'F-S4-S9','F-E1':'F-E1','F-E2':'F-E2','F-E3':'F-E3','F-E4':'F-E4','F-L1':'F-L1','F-Q1':'F-Q1','F-E5':'F-E5','F-Q2':'F-Q2'}
for e in d['findings']:
    if e['status']!='fixed': continue
    print(m[e['id']], e['properties'][0])
PY
while read F P; do
  out=$(tools/trymut.sh $P mutants/revert-fix-$F.diff quick 2>&1)
  if echo "$out" | grep -q "VIOLATION property=$P"; then echo "$F $P CAUGHT"; else echo "$F $P MISSED: $(echo "$out" | tail -2 | tr '\n' ' ')"; fi
done < /tmp/revert_plan.txt
