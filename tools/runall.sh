#!/bin/bash
# run every claimed check of one tier in sequence; prints the verdict lines of each and its exit code
TIER=${1:-quick}
cd "$(dirname "$0")/.."
for i in $(seq -w 1 20); do
  out=$(./check C$i --tier $TIER 2>&1); rc=$?
  echo "$out" | grep -E "VIOLATION|KNOWN-FINDING|CHECK-|evaluations=|Traceback|Error" | cut -c1-300
  echo "C$i $TIER exit=$rc"
done
