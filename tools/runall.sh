#!/bin/bash
# run every claimed check of one tier in sequence; prints the summary line of each
TIER=${1:-quick}
cd "$(dirname "$0")/.."
for i in $(seq -w 1 20); do ./check C$i --tier $TIER 2>&1 | grep -E "VIOLATION|CHECK-|evaluations=" ; done
